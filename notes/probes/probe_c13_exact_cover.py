from hp import *
import itertools
CELLS = {(d,s) for d in ("wd","we") for s in ("su","sh","wi")}
def cells(combo):
    out=[]
    for comp in combo.split("__"):
        d, ss = comp[:2], comp[3:].split("_")
        for s in ss:
            for dd in (("wd","we") if d=="fw" else (d,)): out.append((dd,s))
    return out
base = synth_daily()
def mk(flags, gaussian, df):
    st={"developer_mode":True,"silent_developer_mode":True,"split_selection":dict(zip(["allow_separate_summer","allow_separate_shoulder","allow_separate_winter","allow_separate_weekday_weekend"],flags), reduce_splits_by_gaussian=gaussian, reduce_splits_num_std=[1.4,0.89] if gaussian else None)}
    m = em.DailyModel(settings=st); m.df_meter,_ = m._initialize_data(df.copy()); return m, m._combinations()
bad=0; tot=0; sizes={}
for flags in itertools.product([False,True],repeat=4):
    for g in (False,True):
        m,c = mk(flags,g,base); tot+=len(c); sizes[(flags,g)]=len(c)
        assert "fw-su_sh_wi" in c
        for combo in c:
            cs = cells(combo)
            if sorted(cs)!=sorted(CELLS): bad+=1; print("NOT EXACT COVER", flags, g, combo)
            su,sh,wi,wdwe = flags
            for comp in combo.split("__"):
                if comp[:2] in("wd","we") and not wdwe and combo!="fw-su_sh_wi": print("forbidden wd/we", flags, combo); bad+=1
                if comp[3:] in ("su","sh","wi") and not dict(su=su,sh=sh,wi=wi)[comp[3:]]: print("forbidden season", flags, combo); bad+=1
print("total candidates", tot, "bad", bad); print({k:v for k,v in sizes.items() if not k[1]})
# no summer data
nos = base[~base.index.month.isin([6,7,8,9])]
m,c = mk((True,)*4, False, nos); print("no-summer:", len(c), c[:6])
