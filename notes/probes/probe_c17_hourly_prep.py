import warnings, logging; warnings.filterwarnings("ignore"); logging.disable(logging.CRITICAL)
import numpy as np, pandas as pd, collections, sys, traceback
from hypothesis import given, settings, strategies as st, seed, HealthCheck
from opendsm import eemeter as em
stats=collections.Counter(); fails=collections.Counter(); ex={}
TZS=["UTC","America/Chicago","Europe/London","Australia/Sydney","America/Sao_Paulo","Asia/Kolkata","America/Havana","Australia/Lord_Howe","Pacific/Chatham"]
@st.composite
def case(draw):
    tz=draw(st.sampled_from(TZS)); ndays=draw(st.one_of(st.integers(4,12), st.integers(13,60), st.integers(61,400)))
    start_utc = pd.Timestamp("2018-01-01", tz="UTC") + pd.Timedelta(hours=draw(st.integers(0,24*500)))
    nh = ndays*24 + draw(st.integers(-12,12))
    elec=draw(st.booleans()); ghi=draw(st.booleans()); rep=draw(st.booleans())
    nseed=draw(st.integers(0,2**16))
    nan_cells=draw(st.lists(st.tuples(st.integers(0,nh-1), st.integers(0,2)), max_size=30))
    nan_blocks=draw(st.lists(st.tuples(st.integers(0,nh-1), st.integers(1,200), st.integers(0,2)), max_size=4))
    absent=draw(st.lists(st.tuples(st.integers(1,nh-2), st.integers(1,60)), max_size=4))
    dups=draw(st.lists(st.integers(0,nh-1), max_size=4)); zeros=draw(st.lists(st.integers(0,nh-1), max_size=5))
    return dict(tz=tz,start=start_utc,nh=nh,elec=elec,ghi=ghi,rep=rep,nseed=nseed,nan_cells=nan_cells,nan_blocks=nan_blocks,absent=absent,dups=dups,zeros=zeros)
def build(c):
    idx=pd.date_range(c["start"], periods=c["nh"], freq="h").tz_convert(c["tz"])
    # keep only on-the-hour local stamps (zones with :30 offsets give minute 30) -> shift to local on-the-hour by flooring in local time
    rng=np.random.default_rng(c["nseed"])
    cols={"temperature":50+20*rng.random(c["nh"]),"observed":1+rng.random(c["nh"])}
    if c["ghi"]: cols["ghi"]=100*rng.random(c["nh"])
    df=pd.DataFrame(cols,index=idx); names=list(cols)
    for i,j in c["nan_cells"]: df.iloc[i, j%len(names)]=np.nan
    for i,l,j in c["nan_blocks"]: df.iloc[i:i+l, j%len(names)]=np.nan
    for i in c["zeros"]: df.iloc[i, 1]=0.0
    keep=np.ones(c["nh"],bool)
    for i,l in c["absent"]: keep[i:i+l]=False
    keep[0]=keep[-1]=True
    df=df[keep]
    if c["dups"]:
        d=df.iloc[[i%len(df) for i in c["dups"]]].copy(); d["observed"]=777.0; d["temperature"]=-5.0
        df=pd.concat([df,d]).sort_index(kind="stable")
    return df
@settings(max_examples=int(sys.argv[1]), deadline=None, database=None, suppress_health_check=list(HealthCheck))
@seed(3)
@given(case())
def t(c):
    df=build(c); before=df.copy(deep=True)
    if df.index.minute.max()!=0: stats["offhour_zone"]+=1; return
    cls=em.HourlyReportingData if c["rep"] else em.HourlyBaselineData
    try: d=cls(df, is_electricity_data=c["elec"])
    except Exception as e:
        tb=traceback.extract_tb(sys.exc_info()[2]); fr=[q for q in tb if 'opendsm' in q.filename]
        k=("EXC",type(e).__name__,fr[-1].name if fr else "?"); fails[k]+=1; ex.setdefault(k,(c,str(e)[:100])); return
    stats["ok"]+=1
    o=d.df
    first=df.index.min(); last=df.index.max()
    lo=first.tz_localize(None).normalize(); hi=last.tz_localize(None).normalize()+pd.Timedelta(hours=23)
    # expected index: all real hours whose local wall time in [lo,hi]
    u=pd.date_range(first.tz_convert("UTC")-pd.Timedelta(hours=30), last.tz_convert("UTC")+pd.Timedelta(hours=30), freq="h").tz_convert(c["tz"])
    w=u.tz_localize(None); exp=u[(w>=lo)&(w<=hi)]
    if not o.index.equals(exp):
        k=("index",); fails[k]+=1; ex.setdefault(k,(c,len(o),len(exp),str(o.index[:2]),str(exp[:2]),str(o.index[-2:]),str(exp[-2:]))); return
    src=before[~before.index.duplicated(keep="first")]
    for col in [x for x in ["temperature","observed","ghi"] if x in src.columns]:
        s=src[col].copy()
        if col=="observed" and c["elec"]: s[s==0]=np.nan
        sup=s.dropna()
        got=o.loc[sup.index,col]
        if not np.array_equal(got.values.view(np.int64), sup.values.view(np.int64)):
            k=("value_changed",col); fails[k]+=1; ex.setdefault(k,(c,)); 
        flag=o["interpolated_"+col]
        supplied=pd.Series(False,index=o.index); supplied.loc[sup.index]=True
        expflag=(~supplied)&o[col].notna()
        if not flag.equals(expflag): k=("flag",col); fails[k]+=1; ex.setdefault(k,(c,int((flag!=expflag).sum())))
        if o[col].isna().any() and len(sup)>0: k=("nan_left",col); fails[k]+=1; ex.setdefault(k,(c,int(o[col].isna().sum())))
        if expflag.any(): stats["filled_"+col]+=1
    if not df.equals(before): fails[("input mutated",)]+=1
t(); print(stats)
for k,v in fails.most_common(): print(k,v,str(ex[k])[:400])
