import subprocess, os, json, itertools, collections
from concurrent.futures import ThreadPoolExecutor
jobs=[]
for fam in ["daily","billing","hourly","caltrack"]:
    for hs in ["0","1","12345"]:
        for thr in [None,"4"]:
            for junk in ["0","1"]:
                jobs.append((fam,hs,thr,junk))
def run(j):
    fam,hs,thr,junk=j
    env=dict(os.environ, PYTHONPATH="/tmp/w/scratch", PYTHONHASHSEED=hs, NUMBA_CACHE_DIR="/tmp/w/nc")
    for k in ["OMP_NUM_THREADS","MKL_NUM_THREADS","OPENBLAS_NUM_THREADS"]:
        env.pop(k,None)
        if thr: env[k]=thr
    r=subprocess.run(["/venv/bin/python","/verif/notes/probes/probe_c03_subprocess_worker.py",fam,junk],env=env,capture_output=True,text=True)
    try: return j, json.loads(r.stdout.strip().splitlines()[-1])
    except Exception: return j, {"err": r.stderr[-300:]}
with ThreadPoolExecutor(16) as ex: res=list(ex.map(run,jobs))
by=collections.defaultdict(set)
for j,o in res:
    if "err" in o: print("ERR",j,o); continue
    by[j[0]].add((o["json"],o["pred"]))
for fam,s in by.items(): print(fam, len(s), s if len(s)>1 else "")
for j,o in res:
    if j[0]=="caltrack": print(j,o)
