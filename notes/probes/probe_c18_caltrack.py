import warnings, logging; warnings.filterwarnings("ignore"); logging.disable(logging.CRITICAL)
import numpy as np, pandas as pd, itertools, time
from opendsm.eemeter.models.hourly_caltrack.segmentation import segment_time_series, CalTRACKSegmentModel, SegmentedModel
from opendsm.eemeter.models.hourly_caltrack.model import CalTRACKHourlyModel, _PredictionSegmentInfo
from opendsm.eemeter.common.features import compute_temperature_bin_features, compute_time_features
t0=time.time()
MON=["jan","feb","mar","apr","may","jun","jul","aug","sep","oct","nov","dec"]
for year in (2020,2021):
  for tz in ("UTC","America/Chicago","Australia/Sydney"):
    idx=pd.date_range(f"{year}-01-01", f"{year+1}-01-01", freq="h", tz=tz, inclusive="left"); mth=idx.month.values
    w=segment_time_series(idx,"one_month"); assert (w.sum(axis=1)==1).all() and all((w[MON[m-1]].values==(mth==m)).all() for m in range(1,13))
    w=segment_time_series(idx,"three_month_weighted")
    for j,c in enumerate(w.columns):
        center=(j%12)+1   # columns ordered dec-jan-feb (center jan) ...
        exp=np.where(mth==center,1.0,np.where((mth==(center-2)%12+1)|(mth==center%12+1),0.5,0.0))
        assert (w[c].values==exp).all(), (c,center)
    assert ((w==1).sum(axis=1)==1).all() and ((w==0.5).sum(axis=1)==2).all()
    w=segment_time_series(idx,"three_month"); assert ((w==1).sum(axis=1)==3).all()
    tf=compute_time_features(idx); assert (tf["hour_of_week"].astype(int).values==idx.dayofweek.values*24+idx.hour.values).all()
print("weights ok", time.time()-t0)
# prediction routing with stub models: each fitted segment predicts constant = index of its center month
idx=pd.date_range("2021-01-01","2022-01-01",freq="h",tz="America/Chicago",inclusive="left")
names=list(segment_time_series(idx,"three_month_weighted").columns)
occ=pd.DataFrame({n:np.ones(168,bool) for n in names}, index=pd.CategoricalIndex(range(168)))
bins=pd.DataFrame({n:[False]*6 for n in names}, index=pd.Index([30,45,55,65,75,90],name="bin_endpoints"))
segs=[]
for j,n in enumerate(names):
    params={f"C(hour_of_week)[{h}]":float(j+1) for h in range(168)}; params.update({"bin_0_occupied":0.0})
    segs.append(CalTRACKSegmentModel(n, None, "meter_value ~ C(hour_of_week) - 1 + bin_0_occupied", params))
m=CalTRACKHourlyModel(segs, occ, bins, bins, "three_month_weighted")
T=pd.Series(50.0,index=idx)
t0=time.time(); p=m.predict(idx,T).result["predicted_usage"]; print("predict s",time.time()-t0)
print("routing ok:", (p.values==idx.month.values).all(), p.isna().sum())
# bin features
rng=np.random.default_rng(0); ends=[30,45,55,65,75,90]; bad=0
for r in range(7):
  for sub in itertools.combinations(ends,r):
    Tt=pd.Series(np.concatenate([rng.uniform(-40,130,50), np.array(sub,float), np.array(sub,float)+1e-9, [np.nan]]))
    f=compute_temperature_bin_features(Tt,list(sub))
    s=f.sum(axis=1,skipna=False)
    ok=np.isclose(s[:-1],Tt[:-1],rtol=0,atol=1e-9).all() and f.iloc[-1].isna().all()
    e=[-np.inf]+list(sub)+[np.inf]
    for i in range(len(e)-1):
        exp = np.minimum(Tt,e[1]) if i==0 else np.clip(Tt-e[i],0,e[i+1]-e[i])
        if len(e)==2: exp=Tt
        ok = ok and np.allclose(f[f"bin_{i}"][:-1],exp[:-1],atol=1e-9)
    bad+= (not ok)
print("bin subsets bad:",bad)
