import warnings; warnings.filterwarnings("ignore")
import enum, typing, collections, io, contextlib
import pydantic
from opendsm.common.base_settings import BaseSettings
from opendsm.eemeter.models.daily.utilities.settings import DailySettings, DailyLegacySettings
from opendsm.eemeter.models.billing.settings import BillingSettings
from opendsm.eemeter.models.hourly import settings as hs
def walk(cls, path=()):
    for name, f in cls.model_fields.items():
        ann=f.annotation
        sub=None
        for a in ([ann]+list(typing.get_args(ann))):
            if isinstance(a,type) and issubclass(a,pydantic.BaseModel): sub=a
        dev=(f.json_schema_extra or {}).get("developer") if isinstance(f.json_schema_extra,dict) else None
        if sub is not None: yield from walk(sub, path+(name,))
        else: yield path+(name,), f, dev
def alts(f, default):
    ann=f.annotation; out=[]
    args=[ann]+list(typing.get_args(ann))
    for a in args:
        if isinstance(a,type) and issubclass(a,enum.Enum): out+= [m.value for m in a if m.value!=getattr(default,"value",default)][:2]
    if isinstance(default,bool): out.append(not default)
    elif isinstance(default,(int,float)): out+= [default*1.5+0.5]
    elif isinstance(default,list): out.append([x*2 if isinstance(x,(int,float)) else x for x in default])
    elif isinstance(default,str) and not out: out.append(default+"x")
    if default is None and not out: out.append(1)
    return out
def nest(path,val):
    d=val
    for k in reversed(path): d={k:d}
    return d
stats=collections.Counter(); problems=[]
for cls in [DailySettings, DailyLegacySettings, BillingSettings]:
    base=cls()
    for path,f,dev in walk(cls):
        if path[-1] in ("developer_mode","silent_developer_mode"): continue
        obj=base
        for k in path: obj=getattr(obj,k)
        for v in alts(f,obj):
            for variant in ("lower","UPPER"," pad "):
                p=tuple({"lower":k,"UPPER":k.upper()," pad ":" "+k+" "}[variant] for k in path)
                with contextlib.redirect_stdout(io.StringIO()):
                    try: cls(**nest(p,v)); r1="ok"
                    except pydantic.ValidationError: r1="rej"
                    try: cls(**{**nest(p,v),"developer_mode":True}); r2="ok"
                    except pydantic.ValidationError: r2="rej"
                stats[(cls.__name__,bool(dev),r1,r2)]+=1
                if dev and r1=="ok": problems.append((cls.__name__,path,v,variant,"dev field changed without dev mode accepted"))
                if (not dev) and r1=="rej" and r2=="ok": problems.append((cls.__name__,path,v,variant,"non-dev field needs dev mode"))
for k,v in sorted(stats.items()): print(k,v)
print(len(problems)); 
for p in problems[:15]: print(p)
print([ (p,dev) for p,f,dev in walk(hs.BaseHourlySettings)][:8])
