from hp import *
from opendsm.eemeter.models.daily.utilities.settings import DailyLegacySettings
s=DailyLegacySettings().model_dump(); s["developer_mode"]=True
doc={"submodels":{"fw-su_sh_wi":{"coefficients":{"model_type":"hdd_tidd_cdd","intercept":20.0,"hdd_bp":50.0,"hdd_beta":1.0,"hdd_k":None,"cdd_bp":65.0,"cdd_beta":2.0,"cdd_k":None},"temperature_constraints":{"T_min":0.0,"T_max":100.0,"T_min_seg":5.0,"T_max_seg":95.0},"f_unc":3.0}},
     "info":{"error":{"wRMSE":1.0,"RMSE":1.0,"MAE":1.0,"CVRMSE":0.1,"PNRMSE":0.1},"baseline_timezone":"America/Chicago","disqualification":[],"warnings":[]},"settings":s}
bm=attempt("billing from_dict", lambda: em.BillingModel.from_dict(doc), tb=True)
tz="America/Chicago"
didx=pd.date_range("2019-01-17","2019-09-09",freq="D",tz=tz)
rng=np.random.default_rng(0)
T=pd.Series(rng.integers(20,95,len(didx)).astype(float), index=didx); T.iloc[[5,6,40]]=np.nan
reads=pd.to_datetime(["2019-01-17","2019-02-16","2019-03-18","2019-04-17","2019-05-17","2019-06-16","2019-07-16","2019-08-15","2019-09-09"]).tz_localize(tz)
ms=pd.Series([300.,310,290,305,400,500,520,250,np.nan], index=reads)
r=attempt("billing reporting", lambda: em.BillingReportingData.from_series(ms, T, is_electricity_data=True), tb=True)
p0=bm.predict(r); pm=bm.predict(r,aggregation="monthly"); pb=bm.predict(r,aggregation="bimonthly")
print(p0[["temperature","observed","predicted"]].iloc[3:9])
for name,p in [("daily",p0),("monthly",pm),("bimonthly",pb)]:
    print(name, len(p), {c: round(float(p[c].sum()),6) for c in ["observed","predicted","heating_load","cooling_load"]}, round(float(np.sqrt((p["predicted_unc"]**2).sum())),6))
print(pm[["temperature","observed","predicted","predicted_unc"]])
g=p0.groupby([p0.index.year,p0.index.month]); print(g["predicted"].sum().values, g["temperature"].mean().values[:3], np.sqrt(g["predicted_unc"].apply(lambda x:(x**2).sum())).values[:3])
print(pb.index)
