import warnings; warnings.filterwarnings("ignore")
import numpy as np, pandas as pd, collections, math
from hypothesis import given, settings, strategies as st, seed, HealthCheck
from hypothesis.extra.numpy import arrays
from opendsm.common.metrics import BaselineMetrics
stats=collections.Counter(); fails=collections.Counter(); ex={}
fl = st.one_of(st.floats(-1e6,1e6,allow_nan=False), st.floats(-1e-3,1e-3), st.sampled_from([0.0,np.nan,np.inf,-np.inf,1.0,-1.0]))
@settings(max_examples=4000, deadline=None, database=None, suppress_health_check=list(HealthCheck))
@seed(2)
@given(st.integers(2,60).flatmap(lambda n: st.tuples(st.lists(fl,min_size=n,max_size=n), st.lists(fl,min_size=n,max_size=n))), st.integers(1,70), st.sampled_from(["free","const_obs","zero_mean","perfect"]))
def t(op, p, mode):
    o=np.array(op[0],float); pr=np.array(op[1],float)
    if mode=="const_obs": o=np.where(np.isfinite(o), 5.0, o)
    if mode=="zero_mean":
        f=np.isfinite(o); 
        if f.sum()>=2: o[f]=o[f]-o[f].mean()
    if mode=="perfect": pr=o.copy()
    df=pd.DataFrame({"observed":o,"predicted":pr})
    ok=np.isfinite(o)&np.isfinite(pr); n=int(ok.sum())
    try:
        bm=BaselineMetrics(df=df, num_model_params=p); d=bm.model_dump()
    except Exception as e:
        key=("EXC",type(e).__name__,str(e)[:60], n); fails[key[:3]]+=1; ex.setdefault(key[:3],(o.tolist(),pr.tolist(),p)); return
    stats["ok"]+=1
    if n==0: stats["n0"]+=1; return
    oo,pp=o[ok],pr[ok]; r=oo-pp
    def chk(name, got, exp, tol=1e-9):
        if exp is None:
            if got is not None and np.isfinite(got): fails[(name,"finite where undefined")]+=1; ex.setdefault((name,"finite where undefined"),(oo.tolist(),pp.tolist(),p,got))
            return
        if got is None: fails[(name,"None where defined")]+=1; ex.setdefault((name,"None where defined"),(oo.tolist(),pp.tolist(),p,exp)); return
        sc=1e-12+abs(exp)
        if not (abs(got-exp)<=tol*sc or (np.isnan(got) and np.isnan(exp))): fails[(name,"value")]+=1; ex.setdefault((name,"value"),(oo.tolist(),pp.tolist(),p,got,exp))
    sse=float(np.sum(r*r)); rmse=math.sqrt(sse/n); ddof=max(n-p,1); mean=float(np.sum(oo)/n)
    chk("n",d["n"],n); chk("sse",d["sse"],sse,1e-9); chk("rmse",d["rmse"],rmse); chk("rmse_adj",d["rmse_adj"],math.sqrt(sse/ddof)); chk("mae",d["mae"],float(np.mean(np.abs(r))))
    def ratio(num,den): 
        if den>1e-3: return ("v",num/den)
        if den<=0: return ("u",None)
        return ("e",None)
    for nm,num,den in [("cvrmse",rmse,mean),("cvrmse_adj",math.sqrt(sse/ddof),mean),("nmbe",float(np.mean(r)),mean)]:
        k,v=ratio(num,den)
        if k=="v": chk(nm,d[nm],v,1e-6)
        elif k=="u": chk(nm,d[nm],None)
t()
print(stats); 
for k,v in fails.most_common(): print(k,v, str(ex[k])[:300])
