from hp import *
from multiprocessing import Pool
def weather(year, seed, tz="America/Chicago", amp=None, mean=None):
    idx = pd.date_range(f"{year}-01-01", periods=365, freq="D", tz=tz)
    rng = np.random.default_rng(seed)
    mean = rng.uniform(48,66) if mean is None else mean
    amp = rng.uniform(18,30) if amp is None else amp
    e = np.zeros(365); 
    for i in range(1,365): e[i] = 0.7*e[i-1] + rng.normal(0,4)
    T = mean - amp*np.cos((idx.dayofyear.values-20)/365*2*np.pi) + e
    return pd.Series(T, index=idx)
def curve(T, b, bh, hbp, bc, cbp): return b + bh*np.clip(hbp-T,0,None) + bc*np.clip(T-cbp,0,None)
def one(seed):
    rng = np.random.default_rng(seed)
    kind = ["both","heat","cool","flat"][seed%4]
    b = rng.uniform(5,50); bh = rng.uniform(0.3,3) if kind in("both","heat") else 0.0; bc = rng.uniform(0.3,3) if kind in("both","cool") else 0.0
    hbp = rng.uniform(45,58); cbp = rng.uniform(64,75)
    Tb = weather(2018, seed*7+1); Tr = weather(2019, seed*7+2, mean=Tb.mean()+rng.uniform(-3,3), amp=25)
    nh = int((Tb<hbp).sum()); nc=int((Tb>cbp).sum())
    if (bh>0 and nh<30) or (bc>0 and nc<30): return (seed, kind, "skip", nh, nc)
    yb = curve(Tb.values,b,bh,hbp,bc,cbp); obs = yb*(1+rng.uniform(-0.01,0.01,365))
    d = em.DailyBaselineData(pd.DataFrame({"temperature":Tb,"observed":obs}), is_electricity_data=True)
    out=[]
    for prof in ["current","legacy"]:
        m = em.DailyModel(model=prof).fit(d)
        pb = m.predict(d)["predicted"].values
        r = em.DailyReportingData(pd.DataFrame({"temperature":Tr}), is_electricity_data=True)
        pr = m.predict(r); yr = curve(Tr.values,b,bh,hbp,bc,cbp)
        nr_b = np.sqrt(np.mean((pb-yb)**2))/yb.mean(); nr_r = np.sqrt(np.mean((pr["predicted"].values-yr)**2))/yr.mean()
        sp_h = pr["heating_load"].sum()/yr.sum() if bh==0 else 0; sp_c = pr["cooling_load"].sum()/yr.sum() if bc==0 else 0
        out.append((prof, m.best_combination, [s.coefficients.model_type.value for s in m.params.submodels.values()], round(nr_b,4), round(nr_r,4), round(sp_h,4), round(sp_c,4)))
    return (seed, kind, out)
if __name__=="__main__":
    with Pool(16) as p:
        for r in p.map(one, range(48)): print(r)
