from hp import *
from opendsm.eemeter.models.daily.utilities.settings import DailySettings
def ref_curve(c, tc, T):
    mt=c["model_type"]; b=c["intercept"]; T=np.asarray(T,float)
    Tmin,Tmax=tc["T_min"],tc["T_max"]
    hb=hk=cb=ck=None; bh=bc=0.0
    if mt=="tidd": return np.full_like(T,b), np.zeros_like(T), np.zeros_like(T)
    if mt.startswith("hdd_tidd_cdd"):
        hb,cb=c["hdd_bp"],c["cdd_bp"]; bh,bc=c["hdd_beta"],c["cdd_beta"]; kh=kc=0.0
        if mt.endswith("smooth"):
            ph,pc=c["hdd_k"],c["cdd_k"]
            if not (ph<0.01 and pc<0.01):
                s=ph+pc
                if s>1: ph,pc=ph/s,pc/s
                kh=ph*(cb-hb); kc=pc*(cb-hb); hb=hb+kh; cb=cb-kc
    elif mt.startswith("hdd_tidd"):
        hb=cb=c["hdd_bp"]; bh=-c["hdd_beta"]; kh=c.get("hdd_k") or 0.0; kc=0.0
        if not mt.endswith("smooth"): hb=cb=min(max(hb,tc["T_min_seg"]),tc["T_max_seg"])
    else:
        hb=cb=c["cdd_bp"]; bc=c["cdd_beta"]; kc=c.get("cdd_k") or 0.0; kh=0.0
        if not mt.endswith("smooth"): hb=cb=min(max(hb,tc["T_min_seg"]),tc["T_max_seg"])
    y=np.full_like(T,b); heat=np.zeros_like(T); cool=np.zeros_like(T)
    m=T<hb
    if bh>0:
        x=hb-T[m]; v=bh*x
        if kh>0: v=v+bh*kh*(np.exp(-x/kh)-1)
        heat[m]=v
    m2=T>cb
    if bc>0:
        x=T[m2]-cb; v=bc*x
        if kc>0: v=v+bc*kc*(np.exp(-x/kc)-1)
        cool[m2]=v
    return b+heat+cool, heat, cool

def doc(c, tc):
    s = DailySettings().model_dump()
    return {"submodels":{"fw-su_sh_wi":{"coefficients":c,"temperature_constraints":tc,"f_unc":1.5}},
            "info":{"error":{"wRMSE":1.0,"RMSE":1.0,"MAE":1.0,"CVRMSE":0.1,"PNRMSE":0.1},"baseline_timezone":"America/Chicago","disqualification":[],"warnings":[]},
            "settings":s}
rng=np.random.default_rng(0)
T = np.arange(-60,140.01,0.5); 
idx = pd.date_range("2019-01-01", periods=len(T), freq="D", tz="America/Chicago")
rep = em.DailyReportingData(pd.DataFrame({"temperature":T}, index=idx), is_electricity_data=True)
worst={}
t0=time.time(); n=0
for it in range(300):
    Tmin=rng.uniform(-20,40); Tmax=Tmin+rng.uniform(30,80); Tmn=Tmin+rng.uniform(0.5,5); Tmx=Tmax-rng.uniform(0.5,5)
    tc={"T_min":Tmin,"T_max":Tmax,"T_min_seg":Tmn,"T_max_seg":Tmx}
    a,bp2=sorted(rng.uniform(Tmn,Tmx,2)); b=rng.uniform(1,100); bh=rng.uniform(0.01,5); bc=rng.uniform(0.01,5)
    for mt in ["hdd_tidd_cdd_smooth","hdd_tidd_cdd","hdd_tidd_smooth","hdd_tidd","tidd_cdd_smooth","tidd_cdd","tidd"]:
        c={"model_type":mt,"intercept":b,"hdd_bp":None,"hdd_beta":None,"hdd_k":None,"cdd_bp":None,"cdd_beta":None,"cdd_k":None}
        if mt.startswith("hdd_tidd_cdd"):
            c.update(hdd_bp=a,hdd_beta=bh,cdd_bp=bp2,cdd_beta=bc)
            if mt.endswith("smooth"): c.update(hdd_k=rng.choice([0,0.005,rng.uniform(0,1),1.0]), cdd_k=rng.choice([0,rng.uniform(0,1),1.0]))
        elif mt.startswith("hdd_tidd"):
            c.update(hdd_bp=a,hdd_beta=-bh)
            if mt.endswith("smooth"): c.update(hdd_k=rng.choice([1e-3,rng.uniform(0,30),200.0]))
        elif mt.startswith("tidd_cdd"):
            c.update(cdd_bp=bp2,cdd_beta=bc)
            if mt.endswith("smooth"): c.update(cdd_k=rng.choice([1e-3,rng.uniform(0,30),200.0]))
        c={k:(float(v) if isinstance(v,(np.floating,float,int)) and not isinstance(v,bool) else v) for k,v in c.items()}
        d=doc(c,tc); m=em.DailyModel.from_dict(json.loads(json.dumps(d)))
        p=m.predict(rep); n+=1
        y,h,co=ref_curve(c,tc,T)
        e=np.max(np.abs(p["predicted"].values-y)/(1+np.abs(y))); eh=np.max(np.abs(p["heating_load"].values-h)/(1+np.abs(h))); ec=np.max(np.abs(p["cooling_load"].values-co)/(1+np.abs(co)))
        if e>worst.get(mt,(0,))[0]: worst[mt]=(e,eh,ec,c,tc)
        # roundtrip idempotence
        assert em.DailyModel.from_dict(m.to_dict()).to_dict()==m.to_dict()
print("n",n,"sec/case",(time.time()-t0)/n)
for k,v in worst.items(): print(k, "pred relerr %.3g heat %.3g cool %.3g"%v[:3], v[3] if v[0]>1e-9 else "")
