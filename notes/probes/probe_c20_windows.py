import warnings; warnings.filterwarnings("ignore")
import numpy as np, pandas as pd, datetime as dt, collections
from hypothesis import given, settings, strategies as st, seed, HealthCheck, assume
from opendsm.eemeter.common.transform import get_baseline_data, get_reporting_data
from opendsm.eemeter.common.exceptions import NoBaselineDataError, NoReportingDataError
stats=collections.Counter()
@st.composite
def series(draw):
    kind = draw(st.sampled_from(["h","D","billing"]))
    tz = draw(st.sampled_from(["UTC","America/Chicago","Europe/London","Australia/Sydney"]))
    start = pd.Timestamp("2017-01-01") + pd.Timedelta(days=draw(st.integers(0,700)), hours=draw(st.integers(0,23)) if kind=="h" else 0)
    if kind=="h": idx = pd.date_range(start, periods=draw(st.integers(2,400)), freq="h", tz=tz)
    elif kind=="D": idx = pd.date_range(start, periods=draw(st.integers(2,800)), freq="D", tz=tz)
    else:
        n = draw(st.integers(2,30)); gaps = draw(st.lists(st.integers(20,70), min_size=n-1, max_size=n-1))
        days = np.concatenate([[0], np.cumsum(gaps)]); idx = pd.DatetimeIndex([start.normalize()+pd.Timedelta(days=int(d)) for d in days]).tz_localize(tz, nonexistent="shift_forward", ambiguous=True)
    vals = np.arange(1, len(idx)+1, dtype=float)
    nanpos = draw(st.lists(st.integers(0,len(idx)-1), max_size=5))
    vals[nanpos]=np.nan
    df = pd.DataFrame({"value":vals}, index=idx)
    return kind, df
@st.composite
def cut(draw, df):
    lo, hi = df.index[0], df.index[-1]
    mode = draw(st.sampled_from(["on","inside","before","after"]))
    if mode=="on": t = df.index[draw(st.integers(0,len(df)-1))]
    elif mode=="inside": t = lo + (hi-lo)*draw(st.floats(0.01,0.99)); t = t.floor("min")
    elif mode=="before": t = lo - pd.Timedelta(minutes=draw(st.integers(1,100000)))
    else: t = hi + pd.Timedelta(minutes=draw(st.integers(1,100000)))
    if draw(st.booleans()): t = t.tz_convert("UTC")
    return mode, t
def positions(df, sub): 
    pos = df.index.get_indexer(sub.index); return pos
@settings(max_examples=3000, deadline=None, database=None, suppress_health_check=list(HealthCheck))
@seed(1)
@given(st.data())
def test_baseline(data):
    kind, df = data.draw(series()); mode, end = data.draw(cut(df))
    max_days = data.draw(st.one_of(st.none(), st.integers(1,800)))
    over = data.draw(st.booleans()); ign = data.draw(st.booleans()); nover = data.draw(st.one_of(st.none(), st.integers(0,60)))
    start=None
    if max_days is None and data.draw(st.booleans()):
        start = end - pd.Timedelta(days=data.draw(st.integers(1,800)))
    before = df.copy(deep=True)
    try:
        out, warns = get_baseline_data(df, start=start, end=end, max_days=max_days, allow_billing_period_overshoot=over, n_days_billing_period_overshoot=nover, ignore_billing_period_gap_for_day_count=ign)
    except NoBaselineDataError:
        stats["nodata"]+=1
        pd.testing.assert_frame_equal(df,before); return
    stats["ok"]+=1; stats[f"mode_{mode}"]+=1
    pd.testing.assert_frame_equal(df,before)
    pos = positions(df,out); assert (pos>=0).all() and (np.diff(pos)==1).all(), "not contiguous slice"
    assert out.index.max() <= end, ("leak past end", out.index.max(), end)
    assert out.iloc[-1].isna().all()
    pd.testing.assert_frame_equal(out.iloc[:-1], before.iloc[pos[:-1]], check_freq=False)
    if max_days is not None and not over and not ign:
        assert out.index.min() >= end - pd.Timedelta(days=max_days), "too early"
    if start is not None and not over:
        assert out.index.min() >= start
    names = {w.qualified_name.split(".")[-1] for w in warns}
    if df.index.max() < end and not ign: assert "gap_at_baseline_end" in names, ("missing end gap warning", names)
    if start is not None and start < df.index.min() and not over: assert "gap_at_baseline_start" in names
test_baseline(); print(stats)
