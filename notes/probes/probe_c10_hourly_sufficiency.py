import warnings, logging; warnings.filterwarnings("ignore"); logging.disable(logging.CRITICAL)
import numpy as np, pandas as pd, collections, sys, traceback, math
from hypothesis import given, settings, strategies as st, seed, HealthCheck
from opendsm import eemeter as em
sys.path.insert(0,"/tmp/w"); from hp import synth_hourly
stats=collections.Counter(); fails=collections.Counter(); ex={}
@st.composite
def case(draw):
    days=draw(st.sampled_from([300,328,329,330,364,365,366,380]))
    gas=draw(st.booleans()); rep=draw(st.booleans())
    miss_u_days=draw(st.lists(st.integers(1,days-2), max_size=45, unique=True)); miss_t_days=draw(st.lists(st.integers(1,days-2), max_size=45, unique=True))
    miss_u_hours=draw(st.lists(st.integers(24,days*24-25), max_size=80, unique=True))
    month_block=draw(st.one_of(st.none(), st.tuples(st.integers(1,days-10), st.integers(60,90), st.sampled_from(["t","u"]))))
    neg=draw(st.booleans()); noobs=draw(st.booleans()) if rep else False
    return dict(days=days,gas=gas,rep=rep,mu=miss_u_days,mt=miss_t_days,muh=miss_u_hours,mb=month_block,neg=neg,noobs=noobs)
def ref(df, c):
    # df: input hourly frame (complete index), NaN = missing. returns expected DQ set (baseline) 
    out=set()
    obs=df["observed"].copy(); T=df["temperature"]
    if not c["gas"]: obs=obs.where(obs!=0)
    valid_u=obs.notna(); valid_t=T.notna(); both=valid_u&valid_t if not c["rep"] else valid_t
    # rows are hours; each row's period = 1/24 day except last row (no next) -> 0
    w=np.full(len(df),1/24); w[-1]=0
    idx=df.index
    full=df.assign(observed=obs).dropna()
    if len(full)==0: return {"no_data"}|{"*"}
    n_total=(full.index.max()-full.index.min()).days+1
    if not c["rep"]:
        if n_total>365 or n_total<329: out.add("incorrect_number_of_total_days")
        if int((valid_u.values*w).sum())/n_total<0.9: out.add("too_many_days_with_missing_meter_data")
        if (~c["gas"]) is False: pass
        if c["gas"] and (obs<0).any(): out.add("negative_meter_values")
        mcov=valid_u.groupby(idx.month).mean()
        if (mcov<0.9).any(): out.add("missing_monthly_meter_data")
    if int((both.values*w).sum())/n_total<0.9: out.add("too_many_days_with_missing_data")
    if int((valid_t.values*w).sum())/n_total<0.9: out.add("too_many_days_with_missing_temperature_data")
    tcov=valid_t.groupby(idx.month).mean()
    if (tcov<0.9).any(): out.add("missing_monthly_temperature_data")
    return out
@settings(max_examples=int(sys.argv[1]), deadline=None, database=None, suppress_health_check=list(HealthCheck))
@seed(6)
@given(case())
def t(c):
    df=synth_hourly(days=c["days"], seed=1)
    for d in c["mu"]: df.iloc[d*24:(d+1)*24,1]=np.nan
    for d in c["mt"]: df.iloc[d*24:(d+1)*24,0]=np.nan
    for h in c["muh"]: df.iloc[h,1]=np.nan
    if c["mb"]:
        s,l,k=c["mb"]; df.iloc[s*24:s*24+l, 0 if k=="t" else 1]=np.nan
    if c["neg"]: df.iloc[30,1]=-3.0
    inp=df.drop(columns=["observed"]) if c["noobs"] else df
    cls=em.HourlyReportingData if c["rep"] else em.HourlyBaselineData
    try: d=cls(inp, is_electricity_data=not c["gas"])
    except Exception as e:
        k=("EXC",type(e).__name__); fails[k]+=1; ex.setdefault(k,(c,str(e)[:100])); return
    got={q.qualified_name.split(".")[-1] for q in d.disqualification}
    exp=ref(df if not c["noobs"] else df.assign(observed=np.nan), c)
    stats["ok"]+=1; stats["rep" if c["rep"] else "base"]+=1
    if "*" in exp: stats["nodata"]+=1; return
    if got!=exp:
        k=("rep" if c["rep"] else "base", "noobs" if c["noobs"] else "obs", tuple(sorted(got-exp)), tuple(sorted(exp-got))); fails[k]+=1; ex.setdefault(k,c)
t(); print(stats)
for k,v in fails.most_common(12): print(k,v,str(ex[k])[:300])
