import warnings, logging; warnings.filterwarnings("ignore"); logging.disable(logging.CRITICAL)
import numpy as np, pandas as pd, collections, sys, traceback
from hypothesis import given, settings, strategies as st, seed, HealthCheck
from opendsm import eemeter as em
stats=collections.Counter(); fails=collections.Counter(); ex={}
TZS=["UTC","America/Chicago","Europe/London","Australia/Sydney","America/Sao_Paulo","Asia/Tokyo"]
def local_days(tz, d0, n):
    naive=pd.date_range(d0, periods=n+1, freq="D")
    return naive.tz_localize(tz, nonexistent="shift_forward", ambiguous=True)
@st.composite
def case(draw):
    tz=draw(st.sampled_from(TZS)); step=draw(st.sampled_from([15,30,60])); nd=draw(st.integers(3,40))
    d0=pd.Timestamp("2018-01-01")+pd.Timedelta(days=draw(st.integers(0,400)))
    days=local_days(tz,d0,nd)
    idx=pd.date_range(days[0].tz_convert("UTC"), days[-1].tz_convert("UTC"), freq=f"{step}min", inclusive="left").tz_convert(tz)
    n=len(idx)
    vals=draw(st.integers(0,2**31)); 
    nan_blocks=draw(st.lists(st.tuples(st.integers(0,n-1), st.integers(1,int(36*60/step))), max_size=4))
    absent=draw(st.lists(st.tuples(st.integers(1,n-2), st.integers(1,int(30*60/step))), max_size=3))
    Tstep=draw(st.sampled_from([30,60])); Tnan=draw(st.lists(st.tuples(st.integers(0,10**6), st.integers(1,40)), max_size=4))
    Ttz=draw(st.sampled_from(["same","UTC","Asia/Tokyo"]))
    return dict(tz=tz,step=step,nd=nd,d0=str(d0.date()),vseed=vals,nan_blocks=nan_blocks,absent=absent,Tstep=Tstep,Tnan=Tnan,Ttz=Ttz)
def build(c):
    days=local_days(c["tz"],pd.Timestamp(c["d0"]),c["nd"])
    idx=pd.date_range(days[0].tz_convert("UTC"), days[-1].tz_convert("UTC"), freq=f"{c['step']}min", inclusive="left").tz_convert(c["tz"])
    rng=np.random.default_rng(c["vseed"]); v=rng.integers(1,1000,len(idx)).astype(float)
    for i,l in c["nan_blocks"]: v[i:i+l]=np.nan
    keep=np.ones(len(idx),bool)
    for i,l in c["absent"]: keep[i:i+l]=False
    keep[0]=keep[-1]=True
    m=pd.Series(v,index=idx)[keep]
    tidx=pd.date_range(days[0].tz_convert("UTC"), days[-1].tz_convert("UTC"), freq=f"{c['Tstep']}min", inclusive="left")
    T=pd.Series(rng.integers(0,100,len(tidx)).astype(float), index=tidx)
    for i,l in c["Tnan"]: i=i%len(T); T.iloc[i:i+l]=np.nan
    T=T.tz_convert(c["tz"] if c["Ttz"]=="same" else c["Ttz"])
    return days,m,T
def ref(days, m, step):
    # constant rate over [t_i, t_{i+1}) ; absent rows => previous reading's interval extends (as the library's contract says each reading covers up to the next timestamp)
    out={}
    t=m.index.asi8//10**3 if m.index.unit=="ns" else m.index.asi8  # us
    return None
@settings(max_examples=int(sys.argv[1]), deadline=None, database=None, suppress_health_check=list(HealthCheck))
@seed(4)
@given(case())
def t(c):
    days,m,T=build(c)
    try: d=em.DailyBaselineData.from_series(m.rename("observed"), T.rename("temperature"), is_electricity_data=False)
    except Exception as e:
        tb=traceback.extract_tb(sys.exc_info()[2]); fr=[q for q in tb if 'opendsm' in q.filename]
        k=("EXC",type(e).__name__,fr[-1].name if fr else "?"); fails[k]+=1; ex.setdefault(k,(c,str(e)[:100])); return
    stats["ok"]+=1
    o=d.df
    # reference per local day, readings nominal interval = step (absent row => uncovered)
    step=pd.Timedelta(minutes=c["step"])
    for k in range(c["nd"]-1):   # exclude final day
        a,b=days[k],days[k+1]
        seg=m[(m.index>=a)&(m.index<b)]
        total_slots=int((b-a)/step); present=seg.dropna()
        cov=len(present)/total_slots
        exp = np.nan if cov<=0.5 else present.sum()/cov
        if a not in o.index: fails[("day missing",)]+=1; ex.setdefault(("day missing",),(c,str(a))); return
        got=o.loc[a,"observed"]
        if np.isnan(exp)!=np.isnan(got) or (not np.isnan(exp) and abs(got-exp)>1e-6*max(1,abs(exp))):
            kind="full" if cov==1 else ("partial" if cov>0.5 else "low")
            key=("usage",kind, "absent" if len(seg)<total_slots else "nan"); fails[key]+=1; ex.setdefault(key,(c,str(a),got,exp,cov)); 
        else: stats["day_ok"]+=1
        # temperature
        Tl=T.tz_convert(c["tz"]); ts=Tl[(Tl.index>=a)&(Tl.index<b)]; tot=len(ts); pres=ts.dropna()
        expT = np.nan if (tot==0 or len(pres)/tot<=0.5) else pres.mean()
        gotT=o.loc[a,"temperature"]
        if np.isnan(expT)!=np.isnan(gotT) or (not np.isnan(expT) and abs(gotT-expT)>1e-6*max(1,abs(expT))):
            kind="full" if len(pres)==tot else ("partial" if len(pres)/max(tot,1)>0.5 else "low")
            key=("temp",c["Tstep"],kind); fails[key]+=1; ex.setdefault(key,(c,str(a),gotT,expT,len(pres),tot))
        else: stats["T_ok"]+=1
t(); print(stats)
for k,v in fails.most_common(): print(k,v,str(ex[k])[:500])
