from hp import *
b=synth_hourly(seed=1, ghi=True); r=synth_hourly(start="2019-01-01", days=120, seed=2, ghi=True)
hb=em.HourlyBaselineData(b, is_electricity_data=True); hr=em.HourlyReportingData(r, is_electricity_data=True)
hb0=em.HourlyBaselineData(b.drop(columns=["ghi"]), is_electricity_data=True); hr0=em.HourlyReportingData(r.drop(columns=["ghi"]), is_electricity_data=True)
profiles={
 "default(auto solar)": (None, hb, hr),
 "seed only nonsolar data": ({"seed":1}, hb0, hr0),
 "HourlySolarSettings obj": (em.HourlySolarSettings(seed=1), hb, hr),
 "HourlyNonSolarSettings obj on ghi data": (em.HourlyNonSolarSettings(seed=1), hb, hr),
 "explicit train_features": ({"seed":1,"train_features":["temperature","ghi"]}, hb, hr),
 "robustscaler": ({"seed":1,"scaling_method":"robustscaler"}, hb0, hr0),
 "equal_bin_width": ({"seed":1,"temperature_bin":{"method":"equal_bin_width","n_bins":6,"bin_width":None,"include_edge_bins":False,"edge_bin_rate":None,"edge_bin_percent":None}}, hb0, hr0),
 "equal_sample_count": ({"seed":1,"temperature_bin":{"method":"equal_sample_count","n_bins":6,"bin_width":None,"include_edge_bins":False,"edge_bin_rate":None,"edge_bin_percent":None}}, hb0, hr0),
 "set width no edge": ({"seed":1,"temperature_bin":{"include_edge_bins":False,"edge_bin_rate":None,"edge_bin_percent":None}}, hb0, hr0),
 "edge rate fixed": ({"seed":1,"temperature_bin":{"edge_bin_rate":1.5}}, hb0, hr0),
 "no temperature bins": ({"seed":1,"temperature_bin":None}, hb0, hr0),
 "adaptive weights": ({"seed":1,"elasticnet":{"adaptive_weights":True,"adaptive_weight_max_iter":5,"adaptive_weight_tol":1e-4}}, hb0, hr0),
 "random selection": ({"seed":1,"elasticnet":{"selection":"random"}}, hb0, hr0),
 "min hours 0": ({"seed":1,"min_daily_training_hours":0}, hb0, hr0),
 "clusters 2..6": ({"seed":1,"temporal_cluster":{"n_cluster_upper":6}}, hb0, hr0),
 "silhouette": ({"seed":1,"temporal_cluster":{"score_metric":"silhouette","n_cluster_upper":8}}, hb0, hr0),
}
for name,(st_,B,R) in profiles.items():
    try:
        t=time.time(); m=em.HourlyModel(settings=st_).fit(B); p=m.predict(R); js=m.to_json(); m2=em.HourlyModel.from_json(js); p2=m2.predict(R)
        print(f"OK   {name:42s} fit+pred {time.time()-t:.1f}s  rt-identical={p['predicted'].equals(p2['predicted'])} nan={int(p['predicted'].isna().sum())} feats={m._ts_features}")
    except Exception as e:
        t_=traceback.extract_tb(sys.exc_info()[2]); fr=[q for q in t_ if 'opendsm' in q.filename]
        print(f"FAIL {name:42s} {type(e).__name__}: {str(e)[:110]} @ {fr[-1].name if fr else '?'}")
