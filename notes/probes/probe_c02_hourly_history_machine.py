import warnings, logging; warnings.filterwarnings("ignore"); logging.disable(logging.CRITICAL)
import numpy as np, pandas as pd, collections, sys, copy, time
import hypothesis
from hypothesis import settings, strategies as st, HealthCheck, Phase
from hypothesis.stateful import RuleBasedStateMachine, rule, invariant, initialize, precondition, run_state_machine_as_test
from opendsm import eemeter as em
sys.path.insert(0,"/tmp/w"); from hp import synth_hourly
STATS=collections.Counter()
def bits(df):
    out=[]
    for c in df.columns:
        v=df[c].values
        out.append((c, v.view(np.int64).tobytes() if v.dtype==np.float64 else repr(v.tolist())))
    return (tuple(df.index.asi8.tolist()), tuple(out))
class HourlyHistory(RuleBasedStateMachine):
    @initialize(bseed=st.integers(0,3), solar=st.booleans())
    def setup(self, bseed, solar):
        b=synth_hourly(seed=bseed, ghi=solar); self.base=em.HourlyBaselineData(b, is_electricity_data=True)
        self.model=em.HourlyModel(settings={"seed":1}).fit(self.base)
        self.snap=self.model.to_json(); self.pristine=copy.deepcopy(self.model)
        spans=[("2019-03-04",1),("2019-03-04",7),("2019-06-01",30),("2019-02-10",200),("2019-01-01",365)]
        self.pool=[]
        for i,(s,d) in enumerate(spans):
            r=synth_hourly(start=s, days=d, seed=10+i, ghi=solar)
            self.pool.append(em.HourlyReportingData(r, is_electricity_data=True))
        self.pool.append(self.base)
        self.datasnap=[bits(p._df) for p in self.pool]
        self.ref={}
        self.steps=[]
    @rule(i=st.integers(0,5))
    def predict(self, i):
        out=self.model.predict(self.pool[i]); self.steps.append(i); STATS["predict"]+=1
        if i not in self.ref: self.ref[i]=bits(copy.deepcopy(self.pristine).predict(self.pool[i]))
        assert bits(out)==self.ref[i], f"prediction of set {i} depends on history {self.steps}"
    @invariant()
    def unchanged(self):
        if not hasattr(self,"model"): return
        assert self.model.to_json()==self.snap, f"model changed after {self.steps}"
        for p,s in zip(self.pool,self.datasnap): assert bits(p._df)==s, "data object changed"
t0=time.time()
try:
    run_state_machine_as_test(hypothesis.seed(5)(HourlyHistory), settings=settings(max_examples=4, stateful_step_count=6, deadline=None, database=None, suppress_health_check=list(HealthCheck)))
except Exception as e:
    print("FAILED:", str(e)[:600])
print(STATS, round(time.time()-t0,1),"s")
