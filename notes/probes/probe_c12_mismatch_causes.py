from hp import *
import importlib
sys.path.insert(0,"/tmp/w"); import e19
from opendsm.eemeter.models.daily import optimize_results as orr
# monkeypatch (probe only) to keep raw x
_orig=orr.OptimizedResult.__init__
def patched(self, x, *a, **k):
    self._raw_x=np.array(x,float).copy(); self._raw_coef_id=list(a[1]); _orig(self, x, *a, **k)
orr.OptimizedResult.__init__=patched
import collections
causes=collections.Counter(); shown=collections.Counter()
for seed in range(0,60):
    n=[330,345,365][seed%3]; T,rng=e19.weather(n,seed)
    kind=["both","heat","cool","flat"][(seed//3)%4]
    b=rng.uniform(2,60); bh=rng.uniform(0.1,4) if kind in("both","heat") else 0.0; bc=rng.uniform(0.1,4) if kind in("both","cool") else 0.0
    hbp=rng.uniform(35,62); cbp=hbp+rng.uniform(0,25)
    y=b+bh*np.clip(hbp-T.values,0,None)+bc*np.clip(T.values-cbp,0,None); y=np.abs(y*(1+rng.normal(0,0.05,n)))+1e-3
    d=em.DailyBaselineData(pd.DataFrame({"temperature":T,"observed":y}), is_electricity_data=True)
    for prof in ["current","legacy"]:
        m=em.DailyModel(model=prof).fit(d, ignore_disqualification=True)
        for nm,comp in list(m.fit_components.items())+[("final:"+k,v) for k,v in m.model.items()]:
            ev=comp.eval(comp.T)[0]; err=np.max(np.abs(ev-comp.model))/(1+np.max(np.abs(comp.model)))
            if err<=1e-9: causes[(prof,"ok")]+=1; continue
            raw=dict(zip(comp._raw_coef_id, comp._raw_x))
            cause="?"
            if "hdd_bp" in raw and raw["hdd_bp"]>raw["cdd_bp"]: cause="crossed_raw_bps"
            elif "c_hdd_bp" in raw and (raw["c_hdd_bp"]>comp.T_max_seg or raw["c_hdd_bp"]<comp.T_min_seg): cause="single_bp_outside_seg(clipped on read-back)"
            elif "hdd_bp" in raw and (raw["cdd_bp"]>=comp.T_max or raw["hdd_bp"]<=comp.T_min): cause="2bp_at_Tlimit(beta zeroed)"
            elif "hdd_bp" in raw: cause="2bp_other"
            causes[(prof,cause, nm.startswith("final"))]+=1
            if shown[cause]<2:
                shown[cause]+=1; print(seed,prof,nm,cause,"err=%.3g"%err,"raw=",{k:round(float(v),3) for k,v in raw.items()},"kept=",comp.model_key,[round(float(v),3) for v in comp.x],"Tseg=",round(comp.T_min_seg,2),round(comp.T_max_seg,2),"T=",round(comp.T_min,2),round(comp.T_max,2))
for k,v in sorted(causes.items(), key=str): print(k,v)
