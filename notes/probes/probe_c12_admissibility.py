from hp import *
from multiprocessing import Pool
def weather(n, seed, tz="America/Chicago"):
    idx = pd.date_range("2018-01-01", periods=n, freq="D", tz=tz)
    rng = np.random.default_rng(seed)
    mean = rng.uniform(35,75); amp = rng.uniform(5,35)
    e = np.zeros(n)
    for i in range(1,n): e[i] = 0.7*e[i-1] + rng.normal(0,rng.uniform(1,5))
    return pd.Series(mean - amp*np.cos((idx.dayofyear.values-20)/365*2*np.pi) + e, index=idx), rng
def one(seed):
    n = [330,345,365][seed%3]
    T, rng = weather(n, seed)
    kind = ["both","heat","cool","flat"][(seed//3)%4]
    b = rng.uniform(2,60); bh = rng.uniform(0.1,4) if kind in("both","heat") else 0.0; bc = rng.uniform(0.1,4) if kind in("both","cool") else 0.0
    hbp = rng.uniform(35,62); cbp = hbp+rng.uniform(0,25)
    y = b + bh*np.clip(hbp-T.values,0,None) + bc*np.clip(T.values-cbp,0,None)
    dow = T.index.dayofweek.values
    if seed%5==0: y = y*np.where(dow>=5, rng.uniform(0.4,1.6), 1.0)
    if seed%7==0: y = y*np.where(np.isin(T.index.month,[6,7,8,9]), rng.uniform(0.4,1.8), 1.0)
    noise = rng.choice([0.0,0.02,0.1,0.3])
    y = y*(1+rng.normal(0,noise,n)) if noise>0 else y
    if seed%4==0:
        k = rng.integers(1,6); y[rng.integers(0,n,k)] *= rng.uniform(3,10)
    y = np.abs(y)+1e-3
    d = em.DailyBaselineData(pd.DataFrame({"temperature":T,"observed":y}), is_electricity_data=True)
    res=[]
    for prof in (["current","legacy"] if seed%2==0 else ["legacy"]):
        try:
            m = em.DailyModel(model=prof).fit(d, ignore_disqualification=True)
        except Exception as e:
            t = traceback.extract_tb(sys.exc_info()[2]); fr=[q for q in t if 'opendsm' in q.filename]
            res.append((prof,"EXC",type(e).__name__,str(e)[:80], fr[-1].name if fr else "")); continue
        dfm = m.df_meter
        issues=[]
        for key, sm in m.to_dict()["submodels"].items():
            seg = m._meter_segment(key, dfm); Ts=seg["temperature"].values; ys=seg["observed"].values
            c=sm["coefficients"]; tc=sm["temperature_constraints"]
            vals=[v for v in c.values() if isinstance(v,float)]
            if not np.all(np.isfinite(vals)): issues.append((key,"nonfinite"))
            hb,cb=c["hdd_bp"],c["cdd_bp"]
            if hb is not None and cb is not None and hb>cb: issues.append((key,"hb>cb",hb,cb))
            for nm,bp in (("hdd_bp",hb),("cdd_bp",cb)):
                if bp is not None and not (Ts.min()<=bp<=Ts.max()): issues.append((key,nm+" outside T range",bp,Ts.min(),Ts.max()))
            mt=c["model_type"]
            if mt.startswith("hdd_tidd_cdd"):
                if not (c["hdd_beta"]>0 and c["cdd_beta"]>0): issues.append((key,"slope sign/zero 2bp",c["hdd_beta"],c["cdd_beta"]))
            elif mt.startswith("hdd_tidd"):
                if not c["hdd_beta"]<0: issues.append((key,"hdd slope sign",c["hdd_beta"]))
            elif mt.startswith("tidd_cdd"):
                if not c["cdd_beta"]>0: issues.append((key,"cdd slope sign",c["cdd_beta"]))
            for kk in ("hdd_k","cdd_k"):
                if c[kk] is not None and c[kk]<0: issues.append((key,"neg k",c[kk]))
            if not (ys.min()<=c["intercept"]<=ys.max()): issues.append((key,"intercept outside obs",c["intercept"],ys.min(),ys.max()))
            if not (np.isfinite(sm["f_unc"]) and sm["f_unc"]>=0): issues.append((key,"f_unc",sm["f_unc"]))
            if abs(tc["T_min"]-Ts.min())>1e-12 or abs(tc["T_max"]-Ts.max())>1e-12: issues.append((key,"Tlimits",tc,Ts.min(),Ts.max()))
        # curve agreement
        for nm, comp in list(m.fit_components.items())+[("final:"+k,v) for k,v in m.model.items()]:
            ev = comp.eval(comp.T)[0]; err=np.max(np.abs(ev-comp.model))/(1+np.max(np.abs(comp.model)))
            if err>1e-9: issues.append((nm,"curve mismatch",float(err),comp.model_key,[float(v) for v in comp.x]))
        res.append((prof, m.best_combination, [s["coefficients"]["model_type"] for s in m.to_dict()["submodels"].values()], issues))
    return seed, kind, res
if __name__=="__main__":
    N=int(sys.argv[1])
    with Pool(16) as p:
        out = p.map(one, range(N))
    import collections
    cnt=collections.Counter(); ex=collections.Counter()
    for seed,kind,res in out:
        for r in res:
            if r[1]=="EXC": ex[r[2:]]+=1; print(seed,kind,r); continue
            for i in r[3]:
                cnt[(r[0],i[1])]+=1
                if cnt[(r[0],i[1])]<=3: print(seed,kind,r[0],r[1],i)
    print(cnt); print(ex)
