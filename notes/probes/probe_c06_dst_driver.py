import warnings, logging; warnings.filterwarnings("ignore"); logging.disable(logging.CRITICAL)
import numpy as np, pandas as pd, collections, sys, traceback, pytz, datetime as dt, time
from opendsm.eemeter.models.hourly.model import _get_dst_indices, _transform_dst
lo=dt.datetime(2000,1,1); hi=dt.datetime(2038,1,1)
pairs=[]
for name in pytz.all_timezones:
    tz=pytz.timezone(name); tt=getattr(tz,'_utc_transition_times',[]); ti=getattr(tz,'_transition_info',[])
    for i,(t,info) in enumerate(zip(tt,ti)):
        if i==0 or not (lo<=t<hi): continue
        d=(info[0]-ti[i-1][0]).total_seconds()
        if d==0: continue
        loc=t+ti[i-1][0]
        pairs.append((name,t,d,(loc.hour,loc.minute)))
print(len(pairs))
res=collections.Counter(); exs={}
t0=time.time()
import random; random.seed(0); sample=random.sample(pairs, 3000)
for name,t,d,sig in sample:
    key=(d,sig)
    try:
        day=(pd.Timestamp(t,tz="UTC").tz_convert(name)).tz_localize(None).normalize()
        start=(day-pd.Timedelta(days=1)); end=day+pd.Timedelta(days=1,hours=23)
        u=pd.date_range(pd.Timestamp(t,tz="UTC")-pd.Timedelta(hours=60), pd.Timestamp(t,tz="UTC")+pd.Timedelta(hours=60), freq="h").tz_convert(name)
        w=u.tz_localize(None); idx=u[(w>=start)&(w<=end)]
        if idx.minute.max()!=0 or (idx.minute!=0).any(): res[("offhour",key)]+=1; continue
        df=pd.DataFrame({"observed":1.0,"temperature":1.0},index=idx)
        di=_get_dst_indices(df)
        ndays=len(set(idx.date)); pred=np.arange(ndays*24,dtype=float)
        out=_transform_dst(pred, di)
        if len(out)!=len(idx): res[("LEN",key)]+=1; exs.setdefault(("LEN",key),(name,str(t),len(out),len(idx))); continue
        # each output slot should correspond to (day_i, local hour): value == day*24+hour except repeated hour second occurrence (mean of neighbours)
        days=sorted(set(idx.date)); exp=np.array([days.index(x.date())*24+x.hour for x in idx],float)
        bad=np.where(out!=exp)[0]
        # allowed: second occurrence of repeated hour
        dup=idx.tz_localize(None).duplicated(keep="first")
        bad=[b for b in bad if not dup[b]]
        if bad: res[("SLOT",key)]+=1; exs.setdefault(("SLOT",key),(name,str(t),bad[:5])); continue
        res[("ok",key)]+=1
    except Exception as e:
        tb=traceback.extract_tb(sys.exc_info()[2]); fr=[q for q in tb if 'opendsm' in q.filename]
        k=("EXC:"+type(e).__name__+":"+(fr[-1].name if fr else "?"),key); res[k]+=1; exs.setdefault(k,(name,str(t),str(e)[:80]))
print(time.time()-t0)
agg=collections.defaultdict(collections.Counter)
for (st,key),n in res.items(): agg[key][st]+=n
for key,c in sorted(agg.items(), key=lambda kv:-sum(kv[1].values())): print(key, dict(c))
for k,v in list(exs.items())[:12]: print(k,v)
