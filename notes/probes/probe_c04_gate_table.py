from hp import *
from multiprocessing import Pool
from opendsm.eemeter.common.exceptions import DataSufficiencyError, DisqualifiedModelError
import collections
def mk_daily(seed, defect):
    n=365; d=synth_daily(n=n, seed=seed)
    rng=np.random.default_rng(seed)
    if defect=="short": d=d.iloc[:200]
    if defect=="long": d=synth_daily(n=400, seed=seed)
    if defect=="gaps_u": d.iloc[rng.choice(np.arange(1,n-1),60,replace=False),1]=np.nan
    if defect=="gaps_t": d.iloc[rng.choice(np.arange(1,n-1),60,replace=False),0]=np.nan
    if defect=="month_t": d.iloc[40:46,0]=np.nan
    if defect=="neg_gas": d.iloc[10,1]=-5.0
    if defect=="poor": d["observed"]=np.abs(rng.standard_cauchy(len(d)))*5+0.01
    return d
def mk_hourly(seed, defect):
    days={"short":100}.get(defect,365); d=synth_hourly(days=days if defect!="long" else 400, seed=seed)
    rng=np.random.default_rng(seed); n=len(d)
    if defect=="gaps_u": 
        for s in rng.choice(np.arange(24,n-48),60,replace=False): d.iloc[s:s+24,1]=np.nan
    if defect=="gaps_t":
        for s in rng.choice(np.arange(24,n-48),60,replace=False): d.iloc[s:s+24,0]=np.nan
    if defect=="month_t": d.iloc[24*40:24*46,0]=np.nan
    if defect=="neg_gas": d.iloc[10,1]=-5.0
    if defect=="poor": d["observed"]=np.abs(rng.standard_cauchy(n))*5+0.01
    return d
def one(args):
    fam,seed,defect=args; out=[]
    gas = defect=="neg_gas"
    try:
        if fam=="daily": data=em.DailyBaselineData(mk_daily(seed,defect), is_electricity_data=not gas); mk=lambda: em.DailyModel(model="legacy")
        elif fam=="daily_current": data=em.DailyBaselineData(mk_daily(seed,defect), is_electricity_data=not gas); mk=lambda: em.DailyModel()
        else: data=em.HourlyBaselineData(mk_hourly(seed,defect), is_electricity_data=not gas); mk=lambda: em.HourlyModel(settings={"seed":1})
    except Exception as e:
        return (fam,defect,"DATA-EXC",type(e).__name__,str(e)[:80])
    dq=sorted(q.qualified_name.split(".")[-1] for q in data.disqualification)
    for ign in (False,True):
        try:
            m=mk().fit(data, ignore_disqualification=ign); res="model"; mdq=sorted(q.qualified_name.split(".")[-1] for q in m.disqualification)
        except DataSufficiencyError: res="DSE"; mdq=None
        except Exception as e:
            t=traceback.extract_tb(sys.exc_info()[2]); fr=[q for q in t if 'opendsm' in q.filename]
            res="EXC:"+type(e).__name__+":"+str(e)[:60]+"@"+(fr[-1].name if fr else "?"); mdq=None
        exp = "DSE" if (dq and not ign) else "model"
        out.append((fam,defect,ign,tuple(dq),res,exp, tuple(mdq) if mdq is not None else None))
    return out
if __name__=="__main__":
    jobs=[(fam,seed,defect) for fam in ["daily","daily_current","hourly"] for defect in ["none","short","long","gaps_u","gaps_t","month_t","neg_gas","poor"] for seed in ([0,1] if fam!="daily_current" else [0])]
    with Pool(16) as p: res=p.map(one,jobs)
    for r in res:
        if isinstance(r,tuple): print(r); continue
        for x in r:
            flag = "" if x[4]==x[5] else "   <<<<<< MISMATCH"
            print(x[0],x[1],"ign=",x[2],"dataDQ=",x[3],"->",x[4],"modelDQ=",x[6],flag)
