import warnings, traceback, sys, json, logging, time
warnings.filterwarnings("ignore"); logging.disable(logging.CRITICAL)
import numpy as np, pandas as pd
from opendsm import eemeter as em

def synth_daily(n=365, tz="America/Chicago", start="2018-01-01", seed=0, freq="D"):
    idx = pd.date_range(start, periods=n, freq=freq, tz=tz)
    rng = np.random.default_rng(seed)
    doy = idx.dayofyear.values
    T = 55 - 25*np.cos((doy-15)/365*2*np.pi) + rng.normal(0,5,len(idx))
    obs = 20 + 1.2*np.clip(50-T,0,None) + 0.8*np.clip(T-68,0,None) + rng.normal(0,1,len(idx))
    return pd.DataFrame({"temperature":T,"observed":obs}, index=idx)

def synth_hourly(start="2018-01-01", days=365, tz="America/Chicago", seed=1, ghi=False):
    idxh = pd.date_range(start, periods=days*24, freq="h", tz=tz)
    rng = np.random.default_rng(seed)
    Th = 55 - 25*np.cos((idxh.dayofyear.values-15)/365*2*np.pi) + 8*np.sin((idxh.hour.values-9)/24*2*np.pi) + rng.normal(0,2,len(idxh))
    shape = 1+0.5*np.sin((idxh.hour.values-14)/24*2*np.pi) + 0.2*(idxh.dayofweek.values>=5)
    obsh = shape*(20 + 1.2*np.clip(50-Th,0,None) + 0.8*np.clip(Th-68,0,None))/24 + rng.normal(0,0.05,len(idxh))
    d = pd.DataFrame({"temperature":Th,"observed":obsh}, index=idxh)
    if ghi:
        d["ghi"] = np.clip(800*np.sin((idxh.hour.values-6)/12*np.pi),0,None)*(0.6+0.4*rng.random(len(idxh)))
        d["observed"] -= d["ghi"]/2000
    return d

def attempt(name, f, tb=False):
    try:
        r = f()
        print("OK  ", name, "->", type(r).__name__)
        return r
    except Exception as e:
        t = traceback.extract_tb(sys.exc_info()[2])
        fr = [x for x in t if 'opendsm' in x.filename]
        loc = f"{fr[-1].filename.split('opendsm/',1)[1]}:{fr[-1].lineno}" if fr else "?"
        print("FAIL", name, "->", type(e).__name__, str(e)[:200], "@", loc)
        if tb: traceback.print_exc()
        return None
