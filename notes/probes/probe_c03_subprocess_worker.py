import sys, json, hashlib
sys.path.insert(0,"/tmp/w")
from hp import *
fam=sys.argv[1]; junk=sys.argv[2]=="1"
if junk:
    np.random.seed(99); np.random.rand(1000)
    em.DailyModel(model="legacy").fit(em.DailyBaselineData(synth_daily(seed=42), is_electricity_data=True))
    em.HourlyModel(settings={"seed":5}).fit(em.HourlyBaselineData(synth_hourly(days=60,seed=3), is_electricity_data=True), ignore_disqualification=True)
def dig(s): return hashlib.sha256(s if isinstance(s,bytes) else s.encode()).hexdigest()[:16]
if fam=="daily":
    d=em.DailyBaselineData(synth_daily(seed=1), is_electricity_data=True); m=em.DailyModel().fit(d)
    r=em.DailyReportingData(synth_daily(start="2019-01-01",seed=2), is_electricity_data=True); p=m.predict(r)["predicted"].values.tobytes()
elif fam=="billing":
    df=synth_daily(seed=1); ms=df["observed"].resample("MS").sum(); ms[pd.Timestamp("2019-01-01",tz="America/Chicago")]=np.nan
    T=pd.concat([df["temperature"], synth_daily(start="2019-01-01",n=2,seed=3)["temperature"]])
    d=em.BillingBaselineData.from_series(ms, T, is_electricity_data=True); m=em.BillingModel().fit(d, ignore_disqualification=True)
    p=m.predict(d, ignore_disqualification=True)["predicted"].values.tobytes()
elif fam=="hourly":
    d=em.HourlyBaselineData(synth_hourly(seed=1), is_electricity_data=True); m=em.HourlyModel(settings={"seed":7}).fit(d)
    r=em.HourlyReportingData(synth_hourly(start="2019-01-01",seed=2), is_electricity_data=True); p=m.predict(r)["predicted"].values.tobytes()
elif fam=="caltrack":
    d=em.HourlyCaltrackBaselineData(synth_hourly(days=150,seed=1), is_electricity_data=True); m=em.HourlyCaltrackModel().fit(d)
    r=em.HourlyCaltrackReportingData(synth_hourly(start="2018-02-01",days=60,seed=2), is_electricity_data=True); p=m.predict(r)["predicted"].values.tobytes()
print(json.dumps({"fam":fam,"json":dig(m.to_json()),"pred":dig(p)}))
