"""./check --selftest: the framework imports, the tree under test imports, evidence validation works."""
import json
import os
import sys

from . import env


def main():
    st = env.setup()
    import hypothesis  # noqa
    import numpy  # noqa
    import pandas  # noqa

    import opendsm  # noqa

    env.check_import_origin()
    from . import evidence, findings

    ev = {"property_id": "C00", "tier": "quick", "seed": 1, "level": "exploration", "wall_s": 0.1, "violations": 0,
          "coverage": {"evaluations": 2, "distinct_nontrivial": 2, "rule": "x", "samples": [1]}}
    assert evidence.validate(ev)
    ev["coverage"]["distinct_nontrivial"] = 0
    assert not evidence.validate(ev)
    findings.load()
    with open(os.path.join(env.VERIF, "MANIFEST.json")) as fh:
        man = json.load(fh)
    import importlib

    for c in man["checks"]:
        importlib.import_module("vf.props.%s" % c["property_id"].lower())
    print("selftest ok: hypothesis %s, tree %s, %d checks registered" % (hypothesis.__version__, st["tree"], len(man["checks"])))
    return 0
