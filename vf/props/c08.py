"""C08 — usage is conserved when meter data is resampled to days."""
import contextlib
import io
import math

import numpy as np
import pandas as pd
from hypothesis import strategies as st

from ..core import exc_bucket, short
from ..gen import synth
from ..hyp import explore, mix

ID = "C08"
WARM = []
RULE = (
    "Three sub-domains. billing: read calendars at local midnight (pure monthly: lengths 26-34 with occasional off-cycle "
    "periods of 5-24 and 36-50 days; pure bi-monthly: 55-68 with occasional 5-24 and 71-90; lengths 24-26 and 34-36 are aimed at "
    "DST changes) with integer usage per period, frame and from_series entry points, daily or hourly temperature, 10 zones. "
    "subdaily: 15/30/60-minute integer readings aligned to their interval over 3-60 local days, gaps as NaN and as absent rows "
    "(blocks placed to give days with coverage on each side of 0.5), frame and from_series entry points, DST days inside. "
    "as_freq: the same series through as_freq(series, 'D') directly. Oracle: exact interval arithmetic - each valid billing "
    "period's daily values sum to the billed amount, off-cycle periods are missing, no other day carries usage; a fully covered "
    "local day equals the sum of its readings, coverage in (0.5,1) gives sum/coverage, coverage <= 0.5 gives missing (the final "
    "day is excluded); as_freq conserves the total of the readings whose interval is closed. Non-trivial: the span crosses a DST "
    "change, or contains an off-cycle period, or a day with partial coverage. Distinct = distinct case descriptions."
)
ASSUMPTIONS = [
    "period length is counted in local calendar days between read dates",
    "for sub-daily readings the interval of a reading is the nominal reading interval: a missing reading (NaN or absent row) is uncovered time",
    "mixed monthly/bi-monthly calendars are not generated (the statement does not fix which limit applies to them)",
    "tolerance 1e-9 relative on integers up to 1e6, i.e. any lost or invented unit is visible",
]
ZONES = ["UTC", "America/Chicago", "America/New_York", "America/Los_Angeles", "Europe/London", "Europe/Berlin", "Australia/Sydney",
         "Pacific/Auckland", "Asia/Tokyo", "America/Phoenix"]
DST_DATES = {"America/Chicago": ["2018-03-11", "2018-11-04"], "America/New_York": ["2018-03-11", "2018-11-04"],
             "America/Los_Angeles": ["2018-03-11", "2018-11-04"], "Europe/London": ["2018-03-25", "2018-10-28"],
             "Europe/Berlin": ["2018-03-25", "2018-10-28"], "Australia/Sydney": ["2018-04-01", "2018-10-07"],
             "Pacific/Auckland": ["2018-04-01", "2018-09-30"]}


# ------------------------------------------------------------------ billing
@st.composite
def billing_cases(draw):
    tz = draw(st.sampled_from(ZONES))
    cyc = draw(st.sampled_from(["monthly", "monthly", "bimonthly"]))
    n = draw(st.integers(5, 14)) if cyc == "monthly" else draw(st.integers(5, 8))
    normal = st.integers(26, 34) if cyc == "monthly" else st.integers(55, 68)
    odd = st.sampled_from([5, 12, 20, 24, 25, 35, 36, 37, 45, 50]) if cyc == "monthly" else st.sampled_from([5, 20, 24, 25, 70, 71, 80, 90])
    lengths = [draw(normal) for _ in range(n)]
    # a pure calendar: at most a quarter of the periods are off-cycle, so the cadence (median period) is unambiguous
    for pos in draw(st.lists(st.integers(0, n - 1), max_size=max(1, (n - 2) // 4), unique=True)):
        lengths[pos] = draw(odd)
    if cyc == "monthly" and draw(st.integers(0, 7)) == 0:
        # a coincidence calendar: the first period equals the mean period (first read + n x first period = last read) although the
        # periods are uneven and one of them is off-cycle long - the cadence is still that of the typical (median) period
        L = draw(st.integers(31, 34))
        long_ = draw(st.integers(L + 5, 50))
        rest = [L - 1] * (long_ - L)
        k = draw(st.integers(0, len(rest)))
        lengths = [L] + rest[:k] + [long_] + rest[k:]
        if draw(st.booleans()):
            lengths = lengths + [L - 1]  # the coincidence holds for the reads that carry a bill (all but the closing one)
        if draw(st.booleans()):
            tz = draw(st.sampled_from(["UTC", "Asia/Tokyo"]))  # no clock change between the first and the last read
    c = {"kind": "billing", "tz": tz, "cycle": cyc, "lengths": lengths, "start_day": draw(st.integers(0, 600)),
         "entry": draw(st.sampled_from(["frame", "from_series", "from_series_hourly_T"])), "T_utc": draw(st.booleans()),
         "useed": draw(st.integers(0, 2 ** 20)), "baseline": draw(st.booleans()),
         # gas meters may bill exactly zero for a period
         "zero_bill": draw(st.sampled_from([None, None, 0, 1, 2]))}
    # aim a boundary-length period at a DST change
    if tz in DST_DATES and draw(st.booleans()):
        c["aim"] = {"date": draw(st.sampled_from(DST_DATES[tz])), "length": draw(st.sampled_from([24, 25, 26, 34, 35, 36] if cyc == "monthly" else [24, 25, 26, 69, 70, 71])),
                    "before": draw(st.integers(1, 20))}
    return c


def billing_build(c):
    tz = c["tz"]
    lengths = list(c["lengths"])
    start_day = c["start_day"]
    if "aim" in c:
        # make period k start `before` days ahead of the DST date and last `length` days
        k = len(lengths) // 2
        lengths[k] = c["aim"]["length"]
        target = (pd.Timestamp(c["aim"]["date"]) - pd.Timedelta(days=c["aim"]["before"]) - pd.Timestamp("2017-01-01")).days
        start_day = target - int(sum(lengths[:k]))
        if start_day < 0:
            start_day += 365
    reads = synth.billing_calendar(start_day, lengths, tz)
    rng = np.random.default_rng(c["useed"])
    usage = rng.integers(100, 5000, len(lengths)).astype(float)
    if c.get("zero_bill") is not None:
        usage[min(c["zero_bill"] + 1, len(usage) - 1)] = 0.0
    return reads, usage, lengths


def local_days_between(a, b):
    return (b.tz_localize(None).normalize() - a.tz_localize(None).normalize()).days


def judge_billing(c, rec):
    from opendsm import eemeter as em

    reads, usage, lengths = billing_build(c)
    tz = c["tz"]
    # the regime (monthly / bi-monthly) must be unambiguous whether or not the final period is counted
    for ls in (lengths, lengths[:-1]):
        med = float(np.median(ls))
        if ("monthly" if med <= 35 else "bimonthly") != c["cycle"] or abs(med - 35) < 1:
            rec.case(c, False, ["sub=billing", "mixed-calendar-not-judged"])
            return
    ndays = int(sum(lengths))
    d0 = reads[0].tz_localize(None)
    days = pd.DatetimeIndex([d0 + pd.Timedelta(days=i) for i in range(ndays)]).tz_localize(tz, nonexistent="shift_forward", ambiguous=True)
    rng = np.random.default_rng(c["useed"] + 1)
    Base = em.BillingBaselineData if c["baseline"] else em.BillingReportingData
    # the same bills expressed in another unit (kWh, MWh, Wh): conservation is relative, whatever the magnitude of the numbers
    unit = [1.0, 1.0, 1e-6, 1e3][c["useed"] % 4]
    billed = usage * unit
    cls = ["sub=billing", "cycle=" + c["cycle"], "entry=" + c["entry"], "aim=%d" % ("aim" in c), "unit=%g" % unit]
    with contextlib.redirect_stdout(io.StringIO()):
        if c["entry"] == "frame":
            T = pd.Series(50 + 20 * rng.random(ndays), index=days)
            obs = pd.Series(np.nan, index=days)
            obs[reads[:-1]] = billed
            data = Base(pd.DataFrame({"temperature": T, "observed": obs}), is_electricity_data=c.get("zero_bill") is None)
        else:
            meter = pd.Series(list(billed) + [np.nan], index=reads, name="value")
            if c["entry"] == "from_series":
                tidx = pd.DatetimeIndex([d0 + pd.Timedelta(days=i) for i in range(ndays + 1)]).tz_localize(tz, nonexistent="shift_forward", ambiguous=True)
            else:
                tidx = pd.date_range(reads[0].tz_convert("UTC"), reads[-1].tz_convert("UTC"), freq="h").tz_convert(tz)
            T = pd.Series(50 + 20 * rng.random(len(tidx)), index=tidx, name="temp")
            if c.get("T_utc"):
                T = T.tz_convert("UTC")  # the weather feed in UTC, the meter in local time: days stay local calendar days
            data = Base.from_series(meter, T, is_electricity_data=c.get("zero_bill") is None)
    o = data.df["observed"] if "observed" in data.df else pd.Series(np.nan, index=data.df.index)  # every period dropped
    o = o / unit
    local_date = pd.Series(o.index.tz_localize(None).normalize(), index=o.index)
    lim = (25, 35) if c["cycle"] == "monthly" else (25, 70)
    used = np.zeros(len(o), bool)
    key = "billing/" + c["entry"]
    offcycle = False
    for i in range(len(lengths)):
        a, b = reads[i].tz_localize(None).normalize(), reads[i + 1].tz_localize(None).normalize()
        nd = (b - a).days
        sel = ((local_date >= a) & (local_date < b)).values
        used |= sel
        vals = o.values[sel].astype(float)
        valid = lim[0] <= nd <= lim[1]
        offcycle = offcycle or not valid
        at_dst = "aim" in c and i == len(lengths) // 2
        tag = "/dst-boundary" if (at_dst and nd in (25, 35, 70)) else ""
        if valid:
            if sel.sum() != nd:
                rec.violation(key + "/period-days-missing" + tag, c, "period %d (%s, %d days): %d daily rows" % (i, a.date(), nd, int(sel.sum())))
            elif not np.isfinite(vals).all():
                rec.violation(key + "/valid-period-dropped" + tag, c, "period %d (%s..%s, %d calendar days) has %d missing days" % (
                    i, a.date(), b.date(), nd, int((~np.isfinite(vals)).sum())))
            elif abs(math.fsum(vals) - usage[i]) > 1e-9 * max(usage[i], 1.0):
                rec.violation(key + "/period-total" + tag, c, "period %d (%s, %d days): daily values sum to %r, billed %r" % (i, a.date(), nd, math.fsum(vals), usage[i]))
        else:
            if np.isfinite(vals).any():
                rec.violation(key + "/offcycle-period-kept" + tag, c, "period %d (%s, %d days) is off-cycle but carries %r" % (i, a.date(), nd, float(np.nansum(vals))))
    if np.isfinite(o.values[~used].astype(float)).any():
        rec.violation(key + "/usage-outside-periods", c, "days outside every billing period carry usage")
    dst = len(set(t.utcoffset() for t in reads)) > 1
    rec.case(c, bool(dst or offcycle), cls + ["dst=%d" % dst, "offcycle=%d" % offcycle])


# ------------------------------------------------------------------ sub-daily
@st.composite
def subdaily_cases(draw):
    tz = draw(st.sampled_from(ZONES))
    step = draw(st.sampled_from([15, 30, 60]))
    nd = draw(st.one_of(st.integers(3, 12), st.integers(12, 60)))
    c = {"kind": "subdaily", "tz": tz, "step": step, "nd": nd, "vseed": draw(st.integers(0, 2 ** 20)),
         "entry": draw(st.sampled_from(["frame", "from_series", "as_freq"])), "T_utc": draw(st.booleans()),
         # the series may begin part-way through its first day (aligned to the reading interval, not to midnight)
         "h0_slots": draw(st.sampled_from([0, 0, 0, 1, 5, 19, 30]))}
    if tz in DST_DATES and draw(st.booleans()):
        c["d0"] = str((pd.Timestamp(draw(st.sampled_from(DST_DATES[tz]))) - pd.Timedelta(days=draw(st.integers(0, nd - 2)))).date())
    else:
        c["d0"] = str((pd.Timestamp("2018-01-01") + pd.Timedelta(days=draw(st.integers(0, 400)))).date())
    per_day = 24 * 60 // step
    # blocks: (day, first slot, length in slots, kind)
    c["blocks"] = draw(st.lists(st.tuples(st.integers(0, nd - 2), st.integers(0, per_day - 1),
                                          st.one_of(st.integers(1, per_day // 2 - 1), st.sampled_from([per_day // 2 - 1, per_day // 2, per_day // 2 + 1, per_day, per_day + 3,
                                                                                                         2 * per_day, 3 * per_day + 5])),  # up to a three-day outage
                                          st.sampled_from(["nan", "absent", "zero"])), max_size=4))
    return c


def local_days(tz, d0, n):
    naive = pd.date_range(d0, periods=n + 1, freq="D")
    return naive.tz_localize(tz, nonexistent="shift_forward", ambiguous=True)


def subdaily_build(c):
    days = local_days(c["tz"], pd.Timestamp(c["d0"]), c["nd"])
    idx = pd.date_range(days[0].tz_convert("UTC"), days[-1].tz_convert("UTC"), freq="%dmin" % c["step"], inclusive="left").tz_convert(c["tz"])
    rng = np.random.default_rng(c["vseed"])
    v = rng.integers(1, 1000, len(idx)).astype(float)
    keep = np.ones(len(idx), bool)
    for day, slot, ln, kind in c["blocks"]:
        a = int(np.searchsorted(idx.asi8, days[day].tz_convert("UTC").value if hasattr(days[day], "value") else 0))
        a = int(idx.get_indexer([days[day]])[0]) + slot
        if a <= 0:
            a = 1
        if kind == "nan":
            v[a:a + ln] = np.nan
        elif kind == "zero":
            v[a:a + ln] = 0.0  # gas meters: zero usage is a measurement (a whole day can sum to exactly 0)
        else:
            keep[a:a + ln] = False
    h0 = min(int(c.get("h0_slots", 0)), 24 * 60 // c["step"] - 1) if c.get("entry") != "as_freq" else 0
    keep[:h0] = False
    keep[h0] = keep[-1] = True
    v[h0] = 5.0 if np.isnan(v[h0]) else v[h0]
    m = pd.Series(v, index=idx)[keep]
    return days, m


def judge_subdaily(c, rec):
    from opendsm import eemeter as em
    from opendsm.eemeter.common.data_processor_utilities import as_freq

    days, m = subdaily_build(c)
    step = pd.Timedelta(minutes=c["step"])
    tz = c["tz"]
    cls = ["sub=subdaily", "entry=" + c["entry"], "step=%d" % c["step"]]
    key = "subdaily/" + c["entry"]
    if c["entry"] == "as_freq":
        s = m.dropna() if False else m
        with contextlib.redirect_stdout(io.StringIO()):
            out = as_freq(s, "D")
        # contract of as_freq: a reading is spread to the next timestamp, NaN readings are uncovered;
        # every reading with a closed interval that lies inside one output day is wholly in that day
        got_total = float(np.nansum(out.values.astype(float)))
        # days whose first minute is covered keep their sum; compare per local day for days fully covered by finite readings
        for k in range(c["nd"] - 1):
            a, b = days[k], days[k + 1]
            seg = m[(m.index >= a) & (m.index < b)]
            slots = int((b - a) / step)
            if len(seg) == slots and np.isfinite(seg.values).all() and b in m.index:  # the day's last reading ends at the day's end
                if a not in out.index:
                    rec.violation(key + "/day-missing", c, "local day %s is not a row of as_freq(..., 'D')" % a)
                    break
                g = float(out.loc[a])
                if not (abs(g - seg.sum()) <= 1e-9 * max(1.0, seg.sum())):
                    rec.violation(key + "/full-day", c, "%s: as_freq gives %r, the day's readings sum to %r" % (a, g, float(seg.sum())))
                    break
        partial = any(True for _ in c["blocks"])
        dst = len(set(t.utcoffset() for t in days)) > 1
        rec.case(c, bool(dst or partial), cls + ["dst=%d" % dst])
        return
    rng = np.random.default_rng(c["vseed"] + 1)
    Tv = pd.Series(50 + 20 * rng.random(len(m)), index=m.index)
    present = m.dropna()
    if len(present) > 1 and pd.Series(present.index).diff().median() >= pd.Timedelta(days=1):
        # so little is left of the sub-daily series that its typical spacing is a day or more: what kind of data this is
        # cannot be told any more (the daily class reads it as bills and refuses it); counted, not judged
        rec.note("degenerate-mostly-absent-series")
        rec.case(c, False, cls + ["degenerate"])
        return
    # baseline and reporting classes share the conservation rules (the class is picked from the case's seed)
    DCls = em.DailyReportingData if c["vseed"] % 3 == 0 else em.DailyBaselineData
    cls = cls + ["class=" + DCls.__name__]
    with contextlib.redirect_stdout(io.StringIO()):
        if c["entry"] == "frame":
            data = DCls(pd.DataFrame({"observed": m, "temperature": Tv}), is_electricity_data=False)
        else:
            full = pd.date_range(days[0].tz_convert("UTC"), days[-1].tz_convert("UTC"), freq="h", inclusive="left").tz_convert(tz)
            feed = pd.Series(50 + 20 * rng.random(len(full)), index=full, name="temperature")
            if c.get("T_utc"):
                feed = feed.tz_convert("UTC")
            data = DCls.from_series(m.rename("observed"), feed, is_electricity_data=False)
    o = data.df["observed"] if "observed" in data.df else pd.Series(np.nan, index=data.df.index)  # no valid day at all
    # the frame's rows are the local days of the data, once each, stamped at the start of the day
    lv, fv = m.last_valid_index(), m.first_valid_index()
    k_last = int(days.searchsorted(lv, side="right") - 1)  # the day of the last reading: its interval is open-ended
    k_first = int(days.searchsorted(fv, side="right") - 1)
    # from_series trims missing readings at both ends (documented); the frame constructor keeps the caller's span
    # (the caller's span begins with the local day of its first row: on a 23-hour day a start "23 hours in" is the next midnight)
    k_row0 = int(days.searchsorted(m.index[0], side="right") - 1)
    want_days = days[k_first:k_last + 1] if c["entry"] == "from_series" else days[k_row0:c["nd"]]
    if not (len(data.df.index) == len(want_days) and (data.df.index == want_days).all()):
        extra = data.df.index.difference(want_days)
        lost = want_days.difference(data.df.index)
        rec.violation(key + "/day-rows", c, "frame has %d rows for %d local days; rows that are no day start: %s; days without a row: %s" % (
            len(data.df.index), len(want_days), [str(x) for x in extra[:3]], [str(x) for x in lost[:3]]))
    kinds = set()
    for k in range(k_first if c["entry"] == "from_series" else k_row0, min(c["nd"] - 1, k_last)):  # the final day's last interval is open-ended
        a, b = days[k], days[k + 1]
        seg = m[(m.index >= a) & (m.index < b)]
        slots = int((b - a) / step)
        present = seg.dropna()
        cov = len(present) / slots
        exp = float("nan") if cov <= 0.5 else float(present.sum()) / cov
        kind = "full" if cov == 1 else ("partial" if cov > 0.5 else "low")
        kinds.add(kind)
        how = "absent" if len(seg) < slots else "nan"
        if a not in o.index:
            rec.violation(key + "/day-missing", c, "local day %s is not a row of the data frame" % a)
            break
        g = float(o.loc[a])
        if math.isnan(exp) != math.isnan(g) or (not math.isnan(exp) and abs(g - exp) > 1e-9 * max(1.0, abs(exp))):
            rec.violation("%s/%s-coverage/%s" % (key, kind, how if kind != "full" else "complete"), c,
                          "%s: coverage %.3f, data frame has %r, interval arithmetic gives %r" % (a.date(), cov, g, exp))
            break
    dst = len(set(t.utcoffset() for t in days)) > 1
    rec.case(c, bool(dst or "partial" in kinds or "low" in kinds), cls + ["dst=%d" % dst] + ["has-" + k for k in sorted(kinds)])


# ------------------------------------------------------------------ daily readings (identity)
@st.composite
def daily_cases(draw):
    return {"kind": "daily", "tz": draw(st.sampled_from(ZONES)), "start_day": draw(st.integers(0, 700)), "n": draw(st.integers(5, 400)),
            "vseed": draw(st.integers(0, 2 ** 20)), "nan": draw(st.lists(st.integers(0, 399), max_size=8)),
            "entry": draw(st.sampled_from(["frame", "from_series"]))}


def judge_daily(c, rec):
    from opendsm import eemeter as em

    idx = synth.local_midnights(c["start_day"], c["n"], c["tz"])
    rng = np.random.default_rng(c["vseed"])
    v = rng.integers(1, 1000, c["n"]).astype(float)
    for i in c["nan"]:
        if 0 < i < c["n"] - 1:
            v[i] = np.nan
    T = 50 + 20 * rng.random(c["n"])
    with contextlib.redirect_stdout(io.StringIO()):
        if c["entry"] == "frame":
            data = em.DailyBaselineData(pd.DataFrame({"observed": v, "temperature": T}, index=idx), is_electricity_data=False)
        else:
            data = em.DailyBaselineData.from_series(pd.Series(v, index=idx, name="observed"), pd.Series(T, index=idx, name="temperature"),
                                                    is_electricity_data=False)
    o = (data.df["observed"] if "observed" in data.df else pd.Series(np.nan, index=data.df.index)).reindex(idx)
    g = o.values.astype(float)
    if not np.array_equal(np.isnan(g), np.isnan(v)) or not np.array_equal(g[~np.isnan(v)], v[~np.isnan(v)]):
        i = int(np.nonzero(~((g == v) | (np.isnan(g) & np.isnan(v))))[0][0])
        rec.violation("daily/%s/value" % c["entry"], c, "%s: supplied %r, data frame has %r" % (idx[i].date(), v[i], g[i]))
    if len(data.df) != c["n"]:
        rec.violation("daily/%s/rows" % c["entry"], c, "%d rows for %d supplied days" % (len(data.df), c["n"]))
    dst = len(set(t.utcoffset() for t in idx)) > 1
    rec.case(c, bool(dst), ["sub=daily", "entry=" + c["entry"], "dst=%d" % dst])


JUDGES = {"billing": judge_billing, "subdaily": judge_subdaily, "daily": judge_daily}


def judge(c, rec):
    JUDGES[c["kind"]](c, rec)


def shards(tier, seed):
    q = tier == "quick"
    out = []
    for i in range(7):
        out.append({"sub": "billing", "n": 120 if q else 1500, "seed": mix(seed, ID, "billing", i)})
    for i in range(7):
        out.append({"sub": "subdaily", "n": 60 if q else 800, "seed": mix(seed, ID, "subdaily", i)})
    for i in range(2):
        out.append({"sub": "daily", "n": 100 if q else 1500, "seed": mix(seed, ID, "daily", i)})
    return out


STRATS = {"billing": billing_cases, "subdaily": subdaily_cases, "daily": daily_cases}


def run_shard(spec, rec):
    explore(STRATS[spec["sub"]](), judge, rec, max_examples=spec["n"], seed=spec["seed"], shrink=True)


def replay(case, rec):
    judge(case, rec)
