"""C02 — using a model or a data object never changes it (no hidden side effects)."""
import contextlib
import copy
import io
import json

import numpy as np
import pandas as pd
from hypothesis import HealthCheck, Phase, settings
from hypothesis import seed as hseed
from hypothesis import strategies as st
from hypothesis.stateful import RuleBasedStateMachine, initialize, invariant, rule, run_state_machine_as_test

from ..core import Recorder, Violation, exc_bucket, short
from ..gen import synth, zoo
from ..hyp import explore, mix

ID = "C02"
WARM = ["daily", "hourly"]
RULE = (
    "Two sub-domains. history: a rule-based state machine per family (daily legacy, billing, hourly, CalTRACK hourly): a model is "
    "fitted on a generated baseline, its to_json() is snapshotted and a deep copy kept; a pool of reporting data objects of different "
    "span (1 day, 1 week, 1 month, a partial year, a full year; with and without usage; the baseline object itself) is built; rules: "
    "predict(i) with either flag, serialise, fit another meter in between, overwrite / extend / truncate the frames handed out by "
    "data.df and by predict. After every step: model.to_json() equals the snapshot; the prediction just returned is bit-identical to "
    "the prediction of a fresh deep copy of the post-fit model on the same data object; every data object's frame, warnings and "
    "disqualifications are unchanged; data.df hands out a new object each time. ctor: every data class (daily, billing, hourly, "
    "CalTRACK hourly; frame and from_series) is called on generated frames/series and the caller's objects are compared with a deep "
    "copy taken before the call (values bitwise, index labels, dtypes, column set and order, index.freq); fit() must leave the data "
    "object's warnings/disqualification lists alone. Non-trivial: history - the sequence contains >= 2 predicts on data of different "
    "span, the later one longer; ctor - the frame has NaN cells or zeros (the paths that write). Distinct = distinct step sequences / cases."
)
ASSUMPTIONS = [
    "hourly models are fitted with an explicit seed",
    "bit-identical means equal uint64 views of float columns with NaN positions equal",
]

SPANS = [1, 7, 30, 120, 365]


def frame_state(df):
    if df is None:
        return None
    vals = {}
    for c in df.columns:
        s = df[c]
        if s.dtype.kind == "f":
            vals[c] = np.ascontiguousarray(s.values).view(np.uint64).tobytes()
        else:
            vals[c] = repr(s.tolist())
    return (tuple(df.columns), tuple(map(str, df.dtypes)), df.index.asi8.tobytes(), str(df.index.dtype), repr(getattr(df.index, "freq", None)), vals)


def series_state(s):
    return frame_state(s.to_frame("x")) + (s.name,)


def data_state(d):
    inner = getattr(d, "_df", None)
    if inner is None:
        inner = d.df
    return (frame_state(inner), [w.qualified_name for w in d.warnings], [w.qualified_name for w in d.disqualification],
            len(d.warnings), len(d.disqualification))


def diff_state(a, b):
    if a[0] != b[0]:
        return "frame changed"
    if a[1] != b[1] or a[3] != b[3]:
        return "warnings changed: %s -> %s" % (a[1], b[1])
    if a[2] != b[2] or a[4] != b[4]:
        return "disqualification changed: %s -> %s" % (a[2], b[2])
    return None


BASELINES = {
    "daily": {"family": "daily", "profile": "legacy_dev_splits", "tz": "America/Chicago", "start_day": 0, "n": 365, "noise_seed": 5,
              "usage": {"base": 20.0, "hs": 1.2, "hb": 52.0, "cs": 0.8, "cb": 68.0}, "noise": 0.05, "weekend_shift": 0.3, "season_shift": 0.3,
              "south": False, "electric": True},
    "billing": {"family": "billing", "profile": "billing", "tz": "America/Chicago", "start_day": 0, "n": 365, "noise_seed": 6,
                "usage": {"base": 20.0, "hs": 1.2, "hb": 52.0, "cs": 0.8, "cb": 68.0}, "noise": 0.05, "weekend_shift": 0.0, "season_shift": 0.0,
                "south": False, "electric": True},
    "hourly": {"family": "hourly", "profile": "hourly_default", "ghi": False, "tz": "America/Chicago", "start_day": 0, "n": 365, "noise_seed": 7,
               "usage": {"base": 20.0, "hs": 1.2, "hb": 52.0, "cs": 0.8, "cb": 68.0}, "noise": 0.05, "weekend_shift": 0.0, "season_shift": 0.0,
               "south": False, "electric": True},
    "hourly_noisy": {"family": "hourly", "profile": "hourly_thresholds", "ghi": False, "tz": "America/Chicago", "start_day": 0, "n": 365, "noise_seed": 8,
                     "usage": {"base": 20.0, "hs": 1.2, "hb": 52.0, "cs": 0.8, "cb": 68.0}, "noise": 0.6, "weekend_shift": 0.0, "season_shift": 0.0,
                     "south": False, "electric": True},
    # a baseline that does not cover every month/weekday combination (Jan 1 - Nov 16); its reporting pool starts the day after
    "hourly_partial": {"family": "hourly", "profile": "hourly_default", "ghi": False, "tz": "America/Chicago", "start_day": 0, "n": 320, "noise_seed": 12,
                       "usage": {"base": 20.0, "hs": 1.2, "hb": 52.0, "cs": 0.8, "cb": 68.0}, "noise": 0.05, "weekend_shift": 0.0, "season_shift": 0.0,
                       "south": False, "electric": True},
    "caltrack": {"family": "caltrack", "profile": "caltrack", "tz": "America/Chicago", "start_day": 0, "n": 150, "noise_seed": 9,
                 "usage": {"base": 20.0, "hs": 1.2, "hb": 52.0, "cs": 0.8, "cb": 68.0}, "noise": 0.05, "weekend_shift": 0.0, "season_shift": 0.0,
                 "south": False, "electric": True},
}
for _k in ("caltrack", "hourly", "daily"):
    BASELINES[_k + "_reloaded"] = dict(BASELINES[_k], reloaded=True)


def run_history(steps, family, rec, case=None):
    """Plain interpreter of a step list (used by the machine and by replay). Raises nothing; records violations."""
    bkey = family
    b = BASELINES[bkey]
    fam = b["family"]
    case = case or {"kind": "history", "family": family, "steps": steps}
    # the object under test is the one fit() worked on (a deep copy would hide containers shared between model objects);
    # CalTRACK fits take tens of seconds and stay memoised
    m, base_data = zoo.fitted(b) if fam == "caltrack" else zoo.fit_fresh(b)
    if b.get("reloaded"):
        # the object under test is a stored model read back (it has never predicted anything, unlike a model that fit() just produced)
        m = zoo.model_class(fam).from_json(m.to_json())
    snapshot = json.loads(m.to_json())
    js0 = m.to_json()

    def _clone(obj):
        # an independent copy of the unused model; objects that cannot be deep-copied are rebuilt from their stored form
        try:
            return copy.deepcopy(obj)
        except Exception:
            rec.note("model-not-deep-copyable")
            return zoo.model_class(fam).from_json(js0)

    pristine = _clone(m)
    pool = {}
    states = {}
    K = family

    def get_data(i, observed, ghi_extra=False):
        key = (i, observed, ghi_extra)
        if key not in pool:
            if i == len(SPANS):
                d = zoo.build_baseline(b)
            else:
                r = {"start_day": b["start_day"] + (365 if b["n"] >= 365 or fam == "caltrack" else b["n"]) + 11 * i, "n": SPANS[i] if fam != "billing" else max(SPANS[i], 35), "noise_seed": 100 + i,
                     "observed": observed, "T_shift": 0.0, "T_scale": 1.0}
                fr = zoo.reporting_frame(b, r)
                if ghi_extra and fam == "hourly":
                    fr["ghi"] = 100.0
                d = zoo.build_reporting(b, r, frame=fr)
            pool[key] = d
            states[key] = data_state(d)
        return key, pool[key]

    spans_seen = []
    nontrivial = False
    last_pred = None
    for step in steps:
        op = step[0]
        if op == "predict":
            _, i, observed, flag, ghi_extra = step
            key, d = get_data(i, observed, ghi_extra)
            try:
                p = zoo.predict(m, b, d) if flag else _predict_noflag(m, b, d)
            except Exception as e:
                rec.note("predict-raises:" + type(e).__name__)
                p = None
                try:
                    zoo.predict(_clone(pristine), b, d) if flag else _predict_noflag(_clone(pristine), b, d)
                    rec.violation(K + "/predict-raises-only-after-history", case, "step %d predict(span %s) raises %s: %s; a copy of the unused model predicts the same data" % (
                        steps.index(step), i, type(e).__name__, str(e)[:120]))
                except Exception:
                    pass
            if p is not None:
                ref = zoo.predict(_clone(pristine), b, d)
                dd = zoo.frame_bits_equal(p, ref)
                if dd:
                    rec.violation(K + "/prediction-depends-on-history", case, "step %d predict(span %s): %s" % (steps.index(step), i, dd))
                last_pred = p
            span = SPANS[i] if i < len(SPANS) else 365
            if spans_seen and span > min(spans_seen):
                nontrivial = True
            spans_seen.append(span)
        elif op == "serialise":
            m.to_json()
            m.to_dict()
        elif op == "fit_other":
            ob = dict(b, noise_seed=b["noise_seed"] + 50 + step[1], start_day=b["start_day"] + 30)
            # another meter, another model object, other (non-developer) calendar maps, noisier usage
            ob["noise"] = [0.05, 0.3, 0.6][step[1]]
            if fam == "daily":
                ob["profile"] = ["legacy_dev_splits", "legacy_weekday", "legacy_season"][step[1]]
            elif fam == "billing":
                ob["profile"] = ["billing", "billing_season", "billing"][step[1]]
            if fam == "caltrack":
                ob["n"] = 130
                zoo.fitted(ob)
            else:
                zoo.fit_fresh(ob)
        elif op == "construct_other":
            zoo.decoys(fam)
        elif op == "reuse_check" and fam != "caltrack":
            # a model object that was fitted to another meter and used, then fitted to this baseline, is this model
            ob = dict(b, noise_seed=b["noise_seed"] + 70 + step[1], start_day=b["start_day"] + 20, noise=[0.05, 0.4][step[1] % 2])
            m2, _ = zoo.fit_fresh(ob)
            key, d = get_data(step[2], True)
            try:
                zoo.predict(m2, b, d)
            except Exception:
                pass
            with contextlib.redirect_stdout(io.StringIO()):
                m2.fit(zoo.build_baseline(b), ignore_disqualification=True)
            if json.loads(m2.to_json()) != snapshot:
                a, z = _flat(snapshot), _flat(json.loads(m2.to_json()))
                diff = sorted(k for k in set(a) | set(z) if a.get(k) != z.get(k))
                rec.violation(K + "/reused-object/model-differs", case, "an object fitted to another meter first serialises differently at %s" % diff[:4])
            try:
                dd = zoo.frame_bits_equal(zoo.predict(m2, b, d), zoo.predict(_clone(pristine), b, d))
                if dd:
                    rec.violation(K + "/reused-object/prediction-differs", case, "span %s: %s" % (step[2], dd))
            except Exception as e:
                rec.note("reuse-predict-raises:" + type(e).__name__)
            nontrivial = True
        elif op == "touch":
            key, d = get_data(step[1], True)
            f1 = d.df
            f2 = d.df
            if f1 is f2 or f1 is getattr(d, "_df", None):
                if fam != "caltrack":
                    rec.violation(K + "/df-not-a-copy", case, "data.df hands out the same object twice")
            else:
                try:
                    f1.iloc[:, :] = -777.0
                except Exception:
                    pass
                f1["sentinel"] = 1
            if last_pred is not None:
                try:
                    last_pred["predicted"] = -999.0
                    last_pred.drop(last_pred.index[:1], inplace=True)
                except Exception:
                    pass
        # ---- invariants after every step
        now = json.loads(m.to_json())
        if now != snapshot:
            a, z = _flat(snapshot), _flat(now)
            diff = sorted(k for k in set(a) | set(z) if a.get(k) != z.get(k))
            what = "warnings" if all(k.startswith("info.warnings") for k in diff) else ("temporal_clusters" if any("temporal_clusters" in k for k in diff) else "other")
            rec.violation("%s/model-changed/%s/after-%s" % (K, what, op), case, "after step %d (%s) to_json() differs at %s" % (steps.index(step), op, diff[:4]))
            snapshot = now  # report once per cause, keep going
        for key, d in pool.items():
            if fam == "caltrack" and op == "touch":
                states[key] = data_state(d)  # CalTRACK data objects expose df as a plain attribute
                continue
            dd = diff_state(states[key], data_state(d))
            if dd:
                rec.violation("%s/data-object-changed/after-%s" % (K, op), case, "data object %s: %s" % (key, dd))
                states[key] = data_state(d)
    return nontrivial


def _predict_noflag(m, b, d):
    with contextlib.redirect_stdout(io.StringIO()):
        return m.predict(d)


def _flat(d, pre=""):
    out = {}
    if isinstance(d, dict):
        for k, v in d.items():
            out.update(_flat(v, pre + str(k) + "."))
    elif isinstance(d, list):
        out[pre[:-1] + ".len"] = len(d)
        for i, v in enumerate(d):
            out.update(_flat(v, pre + str(i) + "."))
    else:
        out[pre[:-1]] = d
    return out


step_strategy = st.one_of(
    st.tuples(st.just("predict"), st.integers(0, len(SPANS)), st.booleans(), st.booleans(), st.booleans()),
    st.tuples(st.just("predict"), st.integers(0, len(SPANS)), st.booleans(), st.just(True), st.just(False)),
    st.tuples(st.just("serialise")),
    st.tuples(st.just("fit_other"), st.integers(0, 2)),
    st.tuples(st.just("construct_other")),
    st.tuples(st.just("reuse_check"), st.integers(0, 1), st.integers(0, len(SPANS) - 1)),
    st.tuples(st.just("touch"), st.integers(0, len(SPANS) - 1)),
)


def make_machine(family, rec, pin=None):
    """Rule-based machine: rules only append steps; the invariant re-runs the plain interpreter on the new step."""

    class Machine(RuleBasedStateMachine):
        def __init__(self):
            super().__init__()
            self.steps = []

        @rule(step=step_strategy)
        def do(self, step):
            self.steps.append(list(step))

        def teardown(self):
            if not self.steps:
                return
            scratch = Recorder(ID, rec.known)
            nt = run_history(self.steps, family, scratch)
            case = {"kind": "history", "family": family, "steps": self.steps}
            if pin is None:
                rec.case(case, nt, ["sub=history", "family=" + family, "len=%d" % min(len(self.steps), 9)])
                for k, f in scratch.failures.items():
                    rec.violation(k, f["case"], f["msg"])
                for k, v in scratch.excluded_known.items():
                    rec.excluded_known[k] += v
                for k, v in scratch.notes.items():
                    rec.notes[k] += v
            elif pin in scratch.failures:
                rec.failures[pin] = scratch.failures[pin]
                raise Violation(pin, scratch.failures[pin]["msg"])

    return Machine


def run_machines(family, rec, n, seed, steps, shrink):
    sett = settings(max_examples=n, stateful_step_count=steps, deadline=None, database=None, phases=[Phase.generate],
                    suppress_health_check=list(HealthCheck), report_multiple_bugs=False)
    run_state_machine_as_test(hseed(seed)(make_machine(family, rec)), settings=sett)
    if not shrink:
        return
    import time

    for key in list(rec.failures)[:2]:
        t0 = time.time()
        sett2 = settings(max_examples=n, stateful_step_count=steps, deadline=None, database=None, phases=[Phase.generate, Phase.shrink],
                         suppress_health_check=list(HealthCheck), report_multiple_bugs=False)
        scratch = Recorder(ID, rec.known)
        try:
            run_state_machine_as_test(hseed(seed)(make_machine(family, scratch, pin=key)), settings=sett2)
        except Violation:
            pass
        except Exception:
            pass
        if key in scratch.failures:
            rec.failures[key]["case"] = scratch.failures[key]["case"]
            rec.failures[key]["msg"] = scratch.failures[key]["msg"]
            rec.failures[key]["shrunk"] = True


# ------------------------------------------------------------------ constructors and fit
@st.composite
def ctor_cases(draw):
    klass = draw(st.sampled_from(["daily", "billing", "hourly", "caltrack", "daily_fit", "hourly_fit"]))
    return {"kind": "ctor", "klass": klass, "entry": draw(st.sampled_from(["frame", "from_series"])), "baseline": draw(st.booleans()),
            "tz": draw(st.sampled_from(["America/Chicago", "UTC", "Europe/London"])), "n": draw(st.integers(40, 120)),
            # from_series inputs: Series, or one-column frames (already named, or with other names); the feed may live in another zone
            "series_form": draw(st.sampled_from(["series", "frame_named", "frame_other"])), "feed_tz": draw(st.sampled_from([None, "UTC", "Asia/Tokyo"])),
            "seed": draw(st.integers(0, 2 ** 20)), "nan": draw(st.lists(st.tuples(st.integers(0, 119), st.integers(0, 1)), max_size=5)),
            "zeros": draw(st.lists(st.integers(0, 119), max_size=3)), "electric": draw(st.booleans()), "observed": draw(st.booleans()),
            "noise": draw(st.sampled_from([0.05, 3.0]))}


def judge_ctor(c, rec):
    from opendsm import eemeter as em

    klass = c["klass"]
    fam = {"daily_fit": "daily", "hourly_fit": "hourly"}.get(klass, klass)
    if fam in ("daily", "billing"):
        df = synth.daily_frame(n=max(c["n"], 60) if klass != "daily_fit" else 365, tz=c["tz"], noise_seed=c["seed"], noise=c["noise"])
    else:
        df = synth.hourly_frame(days=c["n"] if klass != "hourly_fit" else 150, tz=c["tz"], noise_seed=c["seed"], noise=c["noise"])
    n = len(df)
    for r, col in c["nan"]:
        df.iloc[(r * 7) % n, col] = np.nan
    for r in c["zeros"]:
        df.iloc[(r * 11) % n, df.columns.get_loc("observed")] = 0.0
    Base, Rep = zoo.data_classes(fam)
    Cls = Base if (c["baseline"] or klass.endswith("_fit")) else Rep
    K = "ctor/%s/%s" % (fam, c["entry"])
    if not c["observed"] and Cls is Rep and c["entry"] == "frame":
        df = df.drop(columns=["observed"])
    cls = ["sub=ctor", "class=" + fam, "entry=" + c["entry"], "baseline=%d" % (Cls is Base)]
    with contextlib.redirect_stdout(io.StringIO()):
        if c["entry"] == "frame" or fam == "hourly":
            before = frame_state(df)
            keep = df
            try:
                data = Cls(df, is_electricity_data=c["electric"])
            except Exception as e:
                rec.note("ctor-raises:" + type(e).__name__)
                rec.case(c, False, cls)
                return
            after = frame_state(keep)
            if before != after:
                what = "columns" if before[0] != after[0] else ("index.freq" if before[4] != after[4] else "values")
                rec.violation("%s/caller-frame-modified/%s" % (K, what), c, "the caller's DataFrame changed (%s)" % what)
        else:
            if "observed" not in df:
                df["observed"] = 1.0
            meter, temp = df["observed"].copy(), df["temperature"].copy()
            if c.get("feed_tz"):
                temp = temp.tz_convert(c["feed_tz"])
            form = c.get("series_form", "series")
            if form == "frame_named":
                meter, temp = meter.to_frame("observed"), temp.to_frame("temperature")
            elif form == "frame_other":
                meter, temp = meter.to_frame("value"), temp.to_frame("tempF")
            st_of = frame_state if form != "series" else series_state
            bm, bt = st_of(meter), st_of(temp)
            # reporting data without a meter: from_series(None, weather, tzinfo=<the site's zone>) - the weather object is the caller's too
            t_only = Cls is Rep and fam in ("daily", "billing") and (not c["observed"] or c["seed"] % 2 == 0)
            try:
                if t_only:
                    import pytz

                    cls.append("temperature-only-with-tzinfo")
                    data = Cls.from_series(None, temp, is_electricity_data=c["electric"], tzinfo=pytz.timezone(c["tz"]))
                else:
                    data = Cls.from_series(meter, temp, is_electricity_data=c["electric"])
            except Exception as e:
                rec.note("ctor-raises:" + type(e).__name__)
                rec.case(c, False, cls)
                return
            am, at = st_of(meter), st_of(temp)
            for name, x, y in (("meter", bm, am), ("temperature", bt, at)):
                if x != y:
                    what = ("index.freq" if x[4] != y[4] else "index-timezone" if x[3] != y[3] else "columns" if x[0] != y[0] else
                            "name" if (form == "series" and x[-1] != y[-1]) else "values")
                    rec.violation("%s/caller-series-modified/%s/%s" % (K, name, what), c, "the caller's %s %s changed (%s)" % (
                        name, "Series" if form == "series" else "DataFrame", what))
        if klass.endswith("_fit"):
            st0 = data_state(data)
            m = em.DailyModel(model="legacy") if fam == "daily" else em.HourlyModel(settings={"seed": 1, "cvrmse_threshold": 0.01, "pnrmse_threshold": 0.01})
            try:
                m.fit(data, ignore_disqualification=True)
            except Exception as e:
                rec.note("fit-raises:" + type(e).__name__)
                rec.case(c, False, cls)
                return
            dd = diff_state(st0, data_state(data))
            if dd:
                rec.violation("fit/%s/data-object-changed" % fam, c, dd)
            # a second model fitted on the same data object must not inherit the first model's disqualification
            m.warnings.append("sentinel")
            if "sentinel" in data.warnings:
                rec.violation("fit/%s/lists-aliased" % fam, c, "the model's warnings list is the data object's list")
            else:
                m.warnings.pop()
    rec.case(c, bool(c["nan"] or c["zeros"]), cls)


def judge(c, rec):
    if c["kind"] == "ctor":
        judge_ctor(c, rec)
    else:
        run_history(c["steps"], c["family"], rec, case=c)


def shards(tier, seed):
    q = tier == "quick"
    out = []
    for fam, k in (("daily", 3), ("billing", 2), ("hourly", 3), ("hourly_noisy", 1), ("hourly_partial", 2)):
        for i in range(k):
            out.append({"sub": "history", "family": fam, "n": 4 if q else 50, "steps": 7 if q else 25, "seed": mix(seed, ID, fam, i)})
    for i in range(2):
        out.append({"sub": "history", "family": "caltrack", "n": 2 if q else 8, "steps": 8 if q else 14, "seed": mix(seed, ID, "caltrack", i)})
    out.append({"sub": "history", "family": "caltrack_reloaded", "n": 3 if q else 10, "steps": 8 if q else 14, "seed": mix(seed, ID, "caltrack_reloaded")})
    out.append({"sub": "history", "family": "hourly_reloaded", "n": 4 if q else 40, "steps": 7 if q else 25, "seed": mix(seed, ID, "hourly_reloaded")})
    out.append({"sub": "history", "family": "daily_reloaded", "n": 4 if q else 40, "steps": 7 if q else 25, "seed": mix(seed, ID, "daily_reloaded")})
    for i in range(4):
        out.append({"sub": "ctor", "n": 40 if q else 500, "seed": mix(seed, ID, "ctor", i)})
    out.append({"sub": "ctor-fixed", "seed": int(seed)})
    return out


def fixed_ctor_cases(seed):
    """temperature-only reporting data through from_series with the site's zone given as tzinfo and the weather kept in another zone
    (every run: the combination is too rare among the generated constructor cases)"""
    out = []
    for klass in ("daily", "billing"):
        for tz in ("America/Chicago", "Europe/London"):
            for ftz in ("UTC", "Asia/Tokyo"):
                for form in ("series", "frame_named", "frame_other"):
                    out.append({"kind": "ctor", "klass": klass, "entry": "from_series", "baseline": False, "tz": tz, "n": 60, "series_form": form, "feed_tz": ftz,
                                "seed": 2 * (int(seed) % 500), "nan": [], "zeros": [], "electric": True, "observed": False, "noise": 0.05})
    return out


def run_shard(spec, rec):
    if spec["sub"] == "ctor-fixed":
        from ..hyp import run_judge

        for c in fixed_ctor_cases(spec["seed"]):
            run_judge(judge, c, rec)
        return
    if spec["sub"] == "ctor":
        explore(ctor_cases(), judge, rec, max_examples=spec["n"], seed=spec["seed"], shrink=False)
    else:
        run_machines(spec["family"], rec, spec["n"], spec["seed"], spec["steps"], shrink=True)


def replay(case, rec):
    judge(case, rec)
