"""C10 — sufficiency verdicts are exactly the published criteria."""
import contextlib
import io
import math

import numpy as np
import pandas as pd
from hypothesis import strategies as st

from ..core import exc_bucket, short
from ..gen import synth
from ..hyp import explore, mix

ID = "C10"
WARM = []
RULE = (
    "Cases: data class in {daily, billing, hourly} x {baseline, reporting} x electric/gas x span 250-420 days (aimed at 328/329/"
    "330 and 364/365/366, also with a single DST change inside) x missing usage days and missing temperature days/hours with "
    "threshold-hugging counts (overall 10%: floor(0.1 n) - 1 .. + 1; one calendar month: 2/3/4 days; hourly: hours) x negative "
    "values x zeros x an extreme value x UTC or local index x frame or from_series entry x daily or hourly temperature feed x daily or "
    "hourly meter readings (missing usage days keep 0/10/12 of 24 readings, some valid days 20 of 24). "
    "First and last day are valid in the main class. One hourly case in three also gives the frame handed out by the data object (data.df) back to the class, as it is and with one more temperature and usage reading lost: the verdict must still be that of the measurements. Oracle: the constructor returns and the set of disqualification names "
    "equals the set computed by an independent restatement of the criteria; at a boundary where the statement leaves a "
    "counting detail open (fractional DST days) both verdicts are accepted; the warnings extreme_values_detected, utc_index and "
    "unable_to_confirm_daily_temperature_sufficiency appear exactly when triggered and removing the trigger does not change the "
    "verdict. Non-trivial: a case within +-1 day of some threshold or with >= 2 simultaneous defects. Distinct = distinct case "
    "descriptions."
)
ASSUMPTIONS = [
    "rows are in chronological order (the daily/billing classes never sort; a descending index is read as gaps - treated as an implicit precondition of every caller, not generated and not a finding)",
    "span = whole days between the first and the last fully valid row, plus one (what the statement's 329-365 range is applied to)",
    "a day counts as valid temperature when more than 90% of its hourly readings are present (daily feed: when the value is present)",
    "the per-month temperature / usage / irradiance criterion is evaluated on the rows of the data frame grouped by calendar month number",
    "where DST makes a period 23/25 hours long the day count may be truncated or not: both verdicts are accepted in that band",
]
ZONES = ["America/Chicago", "America/New_York", "Europe/London", "Australia/Sydney", "UTC", "Asia/Tokyo", "America/Los_Angeles"]
P = "eemeter.sufficiency_criteria."


def hug(n):
    k = int(math.floor(0.1 * n))
    return st.sampled_from([0, 0, 1, 3, max(k - 2, 0), max(k - 1, 0), k, k + 1, k + 2, k + 10])


@st.composite
def daily_cases(draw, klass=None):
    c = {"kind": "daily", "klass": klass or draw(st.sampled_from(["daily", "daily", "billing"])), "baseline": draw(st.booleans()),
         "tz": draw(st.sampled_from(ZONES)), "electric": draw(st.booleans()),
         # spans of 330/340/350/360 days: 90% of them is a whole number of days, so one hour more or less of valid time decides
         "n": draw(st.one_of(st.sampled_from([328, 329, 330, 364, 365, 366]), st.integers(250, 420), st.sampled_from([330, 340, 350, 360]))),
         "start_day": draw(st.one_of(st.integers(0, 700), st.sampled_from([313, 314, 315, 67, 70, 677, 680]))),  # just after a DST change
         "vseed": draw(st.integers(0, 2 ** 20)), "entry": draw(st.sampled_from(["frame", "from_series"])),
         "feed": draw(st.sampled_from(["daily", "hourly"]))}
    n = c["n"]
    c["miss_u"] = draw(hug(n))
    c["miss_t"] = draw(hug(n))
    c["overlap"] = draw(st.booleans())  # the missing temperature days are the missing usage days (or disjoint)
    # the 25-hour and/or the 23-hour day of the span is one of the missing usage days (its period is not 1.0 days long)
    c["dst_miss"] = draw(st.sampled_from([None, None, "long", "short", "both"]))
    c["month_t"] = draw(st.sampled_from([0, 0, 2, 3, 4]))  # days missing inside one calendar month
    c["partial_hours"] = draw(st.sampled_from([0, 0, 1, 2, 3, 11, 12, 13]))  # hourly feed: hours missing on some days
    c["partial_days"] = draw(hug(n)) if c["partial_hours"] else 0
    c["negative"] = draw(st.booleans())
    c["neg_pos"] = draw(st.sampled_from(["third", "third", "last", "first"]))  # where the single negative reading sits
    c["zeros"] = draw(st.sampled_from([0, 0, 2, 40]))
    c["extreme"] = draw(st.booleans())
    # the daily class also takes sub-daily meter readings: a missing usage day then keeps 0, 10 or 12 of its 24 readings (half or
    # fewer: missing, reported by the missing_high_frequency_meter_data *warning*), some valid days keep 20 of 24
    c["meter_feed"] = draw(st.sampled_from(["daily", "daily", "hourly"])) if (c["klass"] == "daily" and c["feed"] == "hourly") else "daily"
    c["meter_kept"] = draw(st.sampled_from([0, 10, 12]))
    c["meter_valid_partial"] = draw(st.sampled_from([0, 3]))
    if c["klass"] == "billing":
        c["feed"] = "daily"
        c["entry"] = "frame"
        lengths, tot = [], 0
        while tot < c["n"] - 26:
            ln = draw(st.one_of(st.integers(28, 33), st.integers(28, 33), st.sampled_from([25, 26, 34, 35])))  # 25 and 35 days are still on-cycle
            lengths.append(ln)
            tot += ln
        c["lengths"] = lengths
        c["n"] = tot
        c["nan_reads"] = []  # a missing read merges two periods: not modelled here
        c["offcycle"] = draw(st.sampled_from([None, None, None, 12, 20]))
        c["miss_u"] = 0
        c["zeros"] = 0
        c["extreme"] = False
    return c


def build_daily(c):
    n, tz = c["n"], c["tz"]
    idx = synth.local_midnights(c["start_day"], n, tz)
    rng = np.random.default_rng(c["vseed"])
    obs = np.round(rng.uniform(20, 60, n), 3)
    T = np.round(synth.daily_temperature(idx, {}, rng), 3)
    inner = np.arange(1, n - 1)
    mu = rng.choice(inner, min(c["miss_u"], len(inner)), replace=False) if c["miss_u"] else np.array([], int)
    if c.get("dst_miss") and len(mu):
        step = np.diff(idx.asi8)
        day = np.median(step)
        want = []
        if c["dst_miss"] in ("long", "both"):
            want += [i for i in inner if step[i] > day][:1]
        if c["dst_miss"] in ("short", "both"):
            want += [i for i in inner if step[i] < day][:1]
        mu = [int(x) for x in mu]
        for j, i in enumerate(want):
            if int(i) not in mu and j < len(mu):
                mu[j] = int(i)
        mu = np.array(sorted(set(mu)), int)
    if c["overlap"]:
        pool = np.concatenate([mu, np.setdiff1d(inner, mu)])
        mt = pool[: c["miss_t"]]
    else:
        rest = np.setdiff1d(inner, mu)
        mt = rng.choice(rest, min(c["miss_t"], len(rest)), replace=False) if c["miss_t"] else np.array([], int)
    mt = set(int(x) for x in mt)
    if c["month_t"]:
        # extra missing temperature days inside one calendar month
        month = idx[n // 2].month
        inmonth = [i for i in inner if idx[i].month == month and idx[i].year == idx[n // 2].year]
        for i in inmonth[: c["month_t"]]:
            mt.add(int(i))
    obs_in = obs.copy()
    obs_in[mu] = np.nan
    if c["klass"] == "billing":
        # per-day usage implied by the read calendar (what the statement's day counting refers to)
        lengths = list(c["lengths"])
        if c.get("offcycle"):
            k = len(lengths) // 2
            lengths[k] = lengths[k] - c["offcycle"]
            lengths.insert(k, c["offcycle"])
        starts = np.concatenate([[0], np.cumsum(lengths)])[:-1]
        per = rng.integers(300, 3000, len(lengths)).astype(float)
        for r in c.get("nan_reads", []):
            if r < len(per):
                per[r] = np.nan
        if c["negative"]:
            per[len(per) // 3] = -50.0
        c["_reads"] = (starts.tolist(), per.tolist(), lengths)
        obs_in = np.full(n, np.nan)
        for a, ln, v in zip(starts, lengths, per):
            if 25 <= ln <= 35:
                obs_in[a:a + ln] = v / ln
    zero_at = []
    if c["zeros"]:
        zero_at = [int(x) for x in rng.choice(np.setdiff1d(inner, mu), min(c["zeros"], len(inner) - len(mu)), replace=False)]
        obs_in[zero_at] = 0.0
    if c["negative"] and c["klass"] != "billing":
        j = {"third": n // 3, "last": n - 1, "first": 0}[c.get("neg_pos", "third")]
        obs_in[j] = -5.0 if not math.isnan(obs_in[j]) else np.nan
    if c["extreme"]:
        j = n // 4
        if not math.isnan(obs_in[j]) and obs_in[j] > 0:
            obs_in[j] = 100000.0
    Tday = T.copy()
    for i in mt:
        Tday[i] = np.nan
    partial = []
    if c["feed"] == "hourly" and c["partial_days"]:
        cand = [i for i in inner if i not in mt]
        partial = [int(x) for x in rng.choice(cand, min(c["partial_days"], len(cand)), replace=False)]
    return idx, obs_in, Tday, sorted(mt), partial


def reference_daily(c, idx, obs_in, Tday, partial):
    """Expected disqualification names; returns (must, may) sets."""
    n = len(idx)
    base = c["baseline"]
    obs = obs_in.copy()
    if c["electric"]:
        obs[obs == 0] = np.nan
    has_u = ~np.isnan(obs)
    # temperature of the data frame: NaN when at most half of the hours are present
    T_value_present = ~np.isnan(Tday)
    T_valid = T_value_present.copy()
    ph = c["partial_hours"]
    for i in partial:
        # day with `ph` missing hours of 24 (DST days: 23/25 - handled as a band below)
        if (24 - ph) / 24.0 <= 0.9:
            T_valid[i] = False
        if (24 - ph) / 24.0 <= 0.5:
            T_value_present[i] = False
    must, may = set(), set()
    if base:
        full = has_u & T_value_present
    else:
        full = T_value_present if not has_u.any() else (has_u & T_value_present)
    # span between first and last fully valid row
    if base and not has_u.any() or not T_value_present.any():
        return {P + "no_data"}, {"*"}
    fv = np.nonzero(has_u & T_value_present)[0] if has_u.any() else np.nonzero(T_value_present)[0]
    if len(fv) == 0:
        return {P + "no_data"}, {"*"}
    elapsed = idx[fv[-1]] - idx[fv[0]]
    n_lo = elapsed.days + 1
    n_hi = int(math.ceil(elapsed / pd.Timedelta(days=1) - 1e-9)) + 1
    if base:
        for nt in {n_lo, n_hi}:
            if nt > 365 or nt < 329:
                may.add(P + "incorrect_number_of_total_days")
        if all((nt > 365 or nt < 329) for nt in {n_lo, n_hi}):
            must.add(P + "incorrect_number_of_total_days")
        if (not c["electric"]) and (obs_in[~np.isnan(obs_in)] < 0).any():
            must.add(P + "negative_meter_values")
    # day weights: period up to the next timestamp, last row contributes nothing
    w = np.zeros(n)
    w[:-1] = np.diff(idx.asi8) / (86400.0 * 10 ** 9 if idx.unit == "ns" else 86400.0 * 10 ** 6)

    def crit(mask, name):
        s = float((mask * w).sum())
        for nv in {math.floor(s + 1e-9), s}:
            for nt in {n_lo, n_hi}:
                if nv / nt < 0.9:
                    may.add(name)
        if all(nv / nt < 0.9 for nv in {math.floor(s + 1e-9), s} for nt in {n_lo, n_hi}):
            must.add(name)

    valid_rows = (has_u & T_valid) if base else T_valid
    crit(valid_rows, P + "too_many_days_with_missing_data")
    if base:
        crit(has_u, P + "too_many_days_with_missing_meter_data")
    crit(T_valid, P + "too_many_days_with_missing_temperature_data")
    months = idx.month.values
    for m in set(months):
        sel = months == m
        if T_value_present[sel].mean() < 0.9:
            must.add(P + "missing_monthly_temperature_data")
    may |= must
    return must, may


def judge_daily(c, rec):
    from opendsm import eemeter as em

    idx, obs_in, Tday, mt, partial = build_daily(c)
    klass = c["klass"]
    Base = {"daily": (em.DailyBaselineData, em.DailyReportingData), "billing": (em.BillingBaselineData, em.BillingReportingData)}[klass][0 if c["baseline"] else 1]
    tz = c["tz"]
    K = "%s/%s" % (klass, "baseline" if c["baseline"] else "reporting")
    cls = ["class=" + K, "entry=" + c["entry"], "feed=" + c["feed"], "electric=%d" % c["electric"], "meter_feed=" + c.get("meter_feed", "daily"),
           "dst-day-missing=%s" % (c.get("dst_miss") or "no"), "n-multiple-of-10=%d" % (c["n"] % 10 == 0)]
    meter = pd.Series(obs_in, index=idx, name="observed")
    if klass == "billing":
        starts, per, lengths = c["_reads"]
        meter = pd.Series(np.nan, index=idx, name="observed")
        for a, v in zip(starts, per):
            meter.iloc[a] = v
    if c["feed"] == "daily":
        temp = pd.Series(Tday, index=idx, name="temperature")
    else:
        hidx = pd.date_range(idx[0].tz_convert("UTC"), (idx[-1] + pd.Timedelta(days=1)).tz_convert("UTC"), freq="h", inclusive="left").tz_convert(tz)
        day_of = np.searchsorted(idx.asi8, hidx.asi8, side="right") - 1
        hv = np.asarray(Tday)[np.clip(day_of, 0, len(idx) - 1)].copy()
        for i in partial:
            rows = np.nonzero(day_of == i)[0]
            hv[rows[: c["partial_hours"]]] = np.nan
        temp = pd.Series(hv, index=hidx, name="temperature")
        if c.get("meter_feed") == "hourly":
            counts = np.bincount(np.clip(day_of, 0, len(idx) - 1), minlength=len(idx)).astype(float)
            mv = (np.asarray(obs_in) / counts)[np.clip(day_of, 0, len(idx) - 1)].copy()
            rngm = np.random.default_rng(c["vseed"] + 99)
            for i in np.nonzero(np.isnan(obs_in))[0]:
                rows = np.nonzero(day_of == i)[0]
                if c["meter_kept"]:
                    # some readings survive, half or fewer of the day (a 23-hour day keeps at most 11: 12 of 23 would be a valid day)
                    mv[rows[: min(c["meter_kept"], len(rows) // 2)]] = 1.5
            ok_days = [i for i in range(1, len(idx) - 1) if not np.isnan(obs_in[i])]
            for i in rngm.choice(ok_days, min(c["meter_valid_partial"], len(ok_days)), replace=False):
                rows = np.nonzero(day_of == i)[0]
                mv[rows[-4:]] = np.nan  # 20 of 24 present: scaled by 1/coverage, the day total is unchanged
            meter = pd.Series(mv, index=hidx, name="observed")
    try:
        with contextlib.redirect_stdout(io.StringIO()):
            if c["entry"] == "frame":
                if c["feed"] == "daily":
                    data = Base(pd.DataFrame({"observed": meter, "temperature": temp}), is_electricity_data=c["electric"])
                else:
                    data = Base(pd.concat([meter, temp], axis=1), is_electricity_data=c["electric"])
            else:
                data = Base.from_series(meter, temp, is_electricity_data=c["electric"])
    except Exception as e:
        bkt = exc_bucket(e)
        if bkt is None:
            raise
        rec.violation("%s/constructor-raises/%s" % (K, bkt), c, "%s: %s" % (type(e).__name__, short(e, 160)))
        rec.case(c, True, cls + ["constructor-raised"])
        return
    got = set(w.qualified_name for w in data.disqualification)
    must, may = reference_daily(c, idx, obs_in, Tday, partial)
    if "*" not in may:
        missing = must - got
        extra = got - may
        for name in sorted(missing):
            rec.violation("%s/missing-dq/%s" % (K, name.split(".")[-1]), c, "criterion %s is violated but not reported (reported: %s)" % (name, sorted(x.split('.')[-1] for x in got)))
        for name in sorted(extra):
            if klass == "billing" and name.endswith("offcycle_reads_in_billing_monthly_data") and not c.get("offcycle"):
                rec.violation("%s/offcycle-dq-without-offcycle-read" % K, c, "off-cycle disqualification although every period has 25-35 days")
                continue
            rec.violation("%s/unexpected-dq/%s" % (K, name.split(".")[-1]), c, "%s reported although the data satisfies it (expected %s)" % (name, sorted(x.split('.')[-1] for x in must)))
    # warnings
    wn = set(w.qualified_name for w in data.warnings)
    if (tz == "UTC") != ("eemeter.data_quality.utc_index" in wn):
        rec.violation(K + "/warning/utc_index", c, "utc_index warning present=%s for zone %s" % ("eemeter.data_quality.utc_index" in wn, tz))
    if klass == "daily":
        unable = P + "unable_to_confirm_daily_temperature_sufficiency" in wn
        if (c["feed"] == "daily") != unable:
            rec.violation(K + "/warning/unable_to_confirm_daily_temperature_sufficiency", c, "present=%s with a %s feed" % (unable, c["feed"]))
        if c["baseline"]:
            o = obs_in.copy()
            if c["electric"]:
                o[o == 0] = np.nan
            o = o[~np.isnan(o)]
            if len(o):
                lim = np.median(o) + 3 * (np.quantile(o, 0.75) - np.quantile(o, 0.25))
                want = bool((o > lim).any())
                if want != (P + "extreme_values_detected" in wn):
                    rec.violation(K + "/warning/extreme_values_detected", c, "present=%s, some value above median+3*IQR=%s" % (P + "extreme_values_detected" in wn, want))
    # warnings never carry the verdict
    dq_only_warnings = got & {"eemeter.data_quality.utc_index", P + "extreme_values_detected", P + "unable_to_confirm_daily_temperature_sufficiency",
                              P + "missing_high_frequency_meter_data", P + "missing_high_frequency_temperature_data"}
    if dq_only_warnings:
        rec.violation(K + "/warning-as-disqualification", c, str(sorted(dq_only_warnings)))
    n = c["n"]
    k = int(math.floor(0.1 * n))
    near = n in (328, 329, 330, 364, 365, 366) or abs(c["miss_u"] - k) <= 1 or abs(c["miss_t"] - k) <= 1 or c["month_t"] in (2, 3, 4)
    nt = near or len(must) >= 2
    rec.case(c, bool(nt), cls + ["ndq=%d" % min(len(got), 3)])


# ------------------------------------------------------------------ hourly
@st.composite
def hourly_cases(draw):
    days = draw(st.one_of(st.sampled_from([328, 329, 330, 364, 365, 366]), st.integers(250, 400)))
    c = {"kind": "hourly", "days": days, "baseline": draw(st.booleans()), "electric": draw(st.booleans()), "tz": draw(st.sampled_from(ZONES)),
         "start_day": draw(st.integers(0, 700)), "vseed": draw(st.integers(0, 2 ** 20)), "ghi": draw(st.booleans())}
    c["miss_u_days"] = draw(hug(days))
    c["miss_t_days"] = draw(hug(days))
    c["miss_u_hours"] = draw(st.sampled_from([0, 0, 10, 80]))
    c["month_block"] = draw(st.sampled_from([None, None, ["t", 60], ["t", 72], ["t", 80], ["u", 72], ["u", 80], ["g", 80]]))
    c["negative"] = draw(st.booleans())
    c["no_usage"] = draw(st.booleans()) if not c["baseline"] else False
    return c


def judge_hourly(c, rec):
    from opendsm import eemeter as em

    df = synth.hourly_frame(days=c["days"], tz=c["tz"], start_day=c["start_day"], noise_seed=c["vseed"], ghi=c["ghi"])
    df["observed"] = np.abs(df["observed"]) + 0.5
    n = len(df)
    rng = np.random.default_rng(c["vseed"] + 3)
    days = c["days"]
    date = df.index.tz_localize(None).normalize()
    udates = date.unique()
    inner = np.arange(1, len(udates) - 1)
    ocol, tcol = df.columns.get_loc("observed"), df.columns.get_loc("temperature")
    for d in rng.choice(inner, min(c["miss_u_days"], len(inner)), replace=False):
        df.iloc[np.nonzero(date == udates[d])[0], ocol] = np.nan
    for d in rng.choice(inner, min(c["miss_t_days"], len(inner)), replace=False):
        df.iloc[np.nonzero(date == udates[d])[0], tcol] = np.nan
    if c["miss_u_hours"]:
        for h in rng.choice(np.arange(24, n - 25), c["miss_u_hours"], replace=False):
            df.iloc[h, ocol] = np.nan
    if c["month_block"]:
        kind, hours = c["month_block"]
        col = {"t": "temperature", "u": "observed", "g": "ghi"}[kind]
        if col in df.columns:
            # inside one calendar month
            mid = df.index[n // 2]
            first = np.nonzero((df.index.month == mid.month) & (df.index.year == mid.year))[0][0]
            df.iloc[first + 24:first + 24 + hours, df.columns.get_loc(col)] = np.nan
    if c["negative"]:
        df.iloc[30 * 24 + 5, ocol] = -3.0
    K = "hourly/%s" % ("baseline" if c["baseline"] else "reporting")
    cls = ["class=" + K, "electric=%d" % c["electric"], "ghi=%d" % c["ghi"], "no_usage=%d" % c["no_usage"]]
    inp = df.drop(columns=["observed"]) if c["no_usage"] else df
    Cls = em.HourlyBaselineData if c["baseline"] else em.HourlyReportingData
    try:
        with contextlib.redirect_stdout(io.StringIO()):
            data = Cls(inp.copy(), is_electricity_data=c["electric"])
    except Exception as e:
        bkt = exc_bucket(e)
        if bkt is None:
            raise
        rec.violation("%s/constructor-raises/%s" % (K, bkt), c, "%s: %s" % (type(e).__name__, short(e, 160)))
        rec.case(c, True, cls)
        return
    base = c["baseline"]

    def reference(df):
        """(must, may) for one raw input frame, or None when it holds no complete row at all"""
        # reference on the input frame (complete hourly index of whole days, so the data class adds no rows)
        obs = df["observed"].copy()
        if c["no_usage"]:
            obs[:] = np.nan
        T = df["temperature"]
        vu, vt = obs.notna().values, T.notna().values
        must, may = set(), set()
        usage_counts = base  # reporting verdicts rest on weather only
        both = (vu & vt) if usage_counts else vt
        full_rows = (vu & vt & (df["ghi"].notna().values if "ghi" in df else True)) if (base or vu.any()) else vt
        fv = np.nonzero(full_rows)[0]
        if len(fv) == 0:
            return None
        elapsed = df.index[fv[-1]] - df.index[fv[0]]
        n_lo = elapsed.days + 1
        n_hi = int(math.ceil(elapsed / pd.Timedelta(days=1) - 1e-9)) + 1
        w = np.full(n, 1 / 24.0)
        w[-1] = 0

        def crit(mask, name):
            s = float((mask * w).sum())
            vals = [nv / nt < 0.9 for nv in {math.floor(s + 1e-9), s} for nt in {n_lo, n_hi}]
            if any(vals):
                may.add(name)
            if all(vals):
                must.add(name)

        if base:
            vals = [(nt > 365 or nt < 329) for nt in {n_lo, n_hi}]
            if any(vals):
                may.add(P + "incorrect_number_of_total_days")
            if all(vals):
                must.add(P + "incorrect_number_of_total_days")
            crit(vu, P + "too_many_days_with_missing_meter_data")
            if not c["electric"] and (obs.dropna() < 0).any():
                must.add(P + "negative_meter_values")
            if (pd.Series(vu).groupby(df.index.month.values).mean() < 0.9).any():
                must.add(P + "missing_monthly_meter_data")
        crit(both, P + "too_many_days_with_missing_data")
        crit(vt, P + "too_many_days_with_missing_temperature_data")
        if (pd.Series(vt).groupby(df.index.month.values).mean() < 0.9).any():
            must.add(P + "missing_monthly_temperature_data")
        if "ghi" in df and (df["ghi"].notna().groupby(df.index.month.values).mean() < 0.9).any():
            must.add(P + "missing_monthly_ghi_data")

        return must | set(), may | must

    got = set(w.qualified_name for w in data.disqualification)
    ref = reference(df)
    if ref is None:
        rec.case(c, False, cls + ["no-data"])
        return
    must, may = ref
    may |= must
    for name in sorted(must - got):
        rec.violation("%s/missing-dq/%s" % (K, name.split(".")[-1]), c, "criterion %s is violated but not reported (reported: %s)" % (name, sorted(x.split('.')[-1] for x in got)))
    for name in sorted(got - may):
        tag = "/no-usage" if c["no_usage"] else ""
        rec.violation("%s/unexpected-dq/%s%s" % (K, name.split(".")[-1], tag), c, "%s reported although the data satisfies it (expected %s)" % (name, sorted(x.split('.')[-1] for x in must)))
    wn = set(x.qualified_name for x in data.warnings)
    if (c["tz"] == "UTC") != ("eemeter.data_quality.utc_index" in wn):
        rec.violation(K + "/warning/utc_index", c, "utc_index warning present=%s for zone %s" % ("eemeter.data_quality.utc_index" in wn, c["tz"]))
    if c["vseed"] % 3 == 0 and not c["no_usage"]:
        # the frame a data object hands out goes through the class again (a pipeline that stores data.df), as it is and with one
        # more reading lost on the way: the verdict is still the verdict of the measurements
        cls = cls + ["refed=1"]
        for extra in (False, True):
            fr, raw = data.df.copy(), df.copy()
            if extra:
                r_t, r_u = (n // 3) | 1, (2 * n // 3) | 1
                fr.iloc[r_t, fr.columns.get_loc("temperature")] = np.nan
                raw.iloc[r_t, raw.columns.get_loc("temperature")] = np.nan
                fr.iloc[r_u, fr.columns.get_loc("observed")] = np.nan
                raw.iloc[r_u, raw.columns.get_loc("observed")] = np.nan
            try:
                with contextlib.redirect_stdout(io.StringIO()):
                    again = Cls(fr, is_electricity_data=c["electric"])
            except Exception as e:
                bkt = exc_bucket(e)
                if bkt is None:
                    raise
                rec.violation("%s/refed/constructor-raises/%s" % (K, bkt), c, "%s: %s" % (type(e).__name__, short(e, 160)))
                break
            got2 = set(w.qualified_name for w in again.disqualification)
            ref2 = reference(raw)
            if ref2 is None:
                continue
            must2, may2 = ref2
            if (must2 - got2) or (got2 - may2):
                rec.violation("%s/refed/verdict-differs%s" % (K, "/one-more-reading-lost" if extra else ""), c, "data.df given back to the class: reported %s, the measurements give %s (first pass reported %s)" % (
                    sorted(x.split('.')[-1] for x in got2), sorted(x.split('.')[-1] for x in must2), sorted(x.split('.')[-1] for x in got)))
                break
    k = int(math.floor(0.1 * days))
    near = days in (328, 329, 330, 364, 365, 366) or abs(c["miss_u_days"] - k) <= 1 or abs(c["miss_t_days"] - k) <= 1 or c["month_block"] is not None
    rec.case(c, bool(near or len(must) >= 2), cls + ["ndq=%d" % min(len(got), 3)])


JUDGES = {"daily": judge_daily, "hourly": judge_hourly}


def judge(c, rec):
    JUDGES[c["kind"]](c, rec)


def shards(tier, seed):
    q = tier == "quick"
    out = []
    for i in range(8):
        out.append({"sub": "daily", "klass": "daily", "n": 90 if q else 1200, "seed": mix(seed, ID, "daily", i)})
    for i in range(2):
        out.append({"sub": "daily", "klass": "billing", "n": 40 if q else 500, "seed": mix(seed, ID, "billing", i)})
    for i in range(6):
        out.append({"sub": "hourly", "n": 12 if q else 150, "seed": mix(seed, ID, "hourly", i)})
    return out


def run_shard(spec, rec):
    if spec["sub"] == "daily":
        explore(daily_cases(klass=spec["klass"]), judge, rec, max_examples=spec["n"], seed=spec["seed"], shrink=True)
    else:
        explore(hourly_cases(), judge, rec, max_examples=spec["n"], seed=spec["seed"], shrink=False)


def replay(case, rec):
    judge(case, rec)
