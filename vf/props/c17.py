"""C17 — hourly data preparation keeps what was measured and flags what was filled."""
import numpy as np
import pandas as pd
from hypothesis import strategies as st

from ..hyp import explore, mix

ID = "C17"
WARM = []
RULE = (
    "Cases: on-the-hour hourly frames of 4 days to 2 years (sizes weighted small) built on the local wall clock of 12 zones "
    "(incl. :30/:45 offsets and zones whose DST change is at local midnight), start/end at any hour (also on a DST day), NaN "
    "cells and blocks, absent rows, duplicated rows with different values (also duplicates whose first occurrence is empty; a stretch of hours delivered again and appended after the original rows, so that the frame is not in time order), negative night-time irradiance, "
    "zeros, with/without ghi, electric/gas, HourlyBaselineData and HourlyReportingData, timestamps as the index or in a tz-aware "
    "`datetime` column. Oracle: data.df.index is every real hour "
    "from 00:00 of the first supplied local day to 23:00 of the last (UTC arithmetic), unique and increasing; every supplied "
    "finite cell (first occurrence of a duplicated stamp; zero electric usage = not supplied) is bit-identical in the output; "
    "interpolated_<col> is true exactly on cells not supplied and now non-NaN; nothing is NaN unless the whole column was empty; "
    "the caller's frame is untouched. Non-trivial: at least one filled cell AND at least one duplicate or absent row. Distinct = "
    "distinct case descriptions."
)
ASSUMPTIONS = [
    "zones whose DST shift is a whole hour (so every real hour is on the local hour)",
    "a column with no finite value at all may stay NaN",
]
TZS = ["UTC", "America/Chicago", "America/New_York", "Europe/London", "Europe/Berlin", "Australia/Sydney", "Australia/Adelaide",
       "America/Sao_Paulo", "Asia/Kolkata", "Asia/Kathmandu", "America/Havana", "Pacific/Auckland"]
DST_ENDS = {  # local dates with a 23/25-hour day, used to aim span ends at them
    "America/Chicago": ["2018-03-11", "2018-11-04", "2019-03-10", "2019-11-03"],
    "America/New_York": ["2018-03-11", "2018-11-04", "2019-03-10", "2019-11-03"],
    "Europe/London": ["2018-03-25", "2018-10-28", "2019-03-31", "2019-10-27"],
    "Europe/Berlin": ["2018-03-25", "2018-10-28", "2019-03-31", "2019-10-27"],
    "Australia/Sydney": ["2018-04-01", "2018-10-07", "2019-04-07", "2019-10-06"],
    "Australia/Adelaide": ["2018-04-01", "2018-10-07", "2019-04-07", "2019-10-06"],
    "Pacific/Auckland": ["2018-04-01", "2018-09-30", "2019-04-07", "2019-09-29"],
}


@st.composite
def cases(draw):
    tz = draw(st.sampled_from(TZS))
    ndays = draw(st.one_of(st.integers(4, 12), st.integers(4, 12), st.integers(13, 60), st.integers(61, 400), st.integers(400, 730)))
    c = {"tz": tz, "ndays": ndays}
    aim = draw(st.sampled_from(["none", "none", "end_on_dst", "start_on_dst"])) if tz in DST_ENDS else "none"
    c["aim"] = aim
    if aim == "none":
        c["start_h"] = draw(st.integers(0, 24 * 500))
    else:
        c["dst"] = draw(st.sampled_from(DST_ENDS[tz]))
        c["edge_hour"] = draw(st.integers(0, 24))
    c["extra_h"] = draw(st.integers(-12, 12))
    c["elec"] = draw(st.booleans())
    c["ghi"] = draw(st.booleans())
    c["rep"] = draw(st.booleans())
    c["nseed"] = draw(st.integers(0, 2 ** 16))
    nh = ndays * 24
    c["nan_cells"] = draw(st.lists(st.tuples(st.integers(0, nh - 1), st.integers(0, 2)), max_size=30))
    c["nan_blocks"] = draw(st.lists(st.tuples(st.integers(0, nh - 1), st.one_of(st.integers(1, 200), st.integers(200, 24 * 30)), st.integers(0, 2)), max_size=4))  # up to a month-long outage
    c["absent"] = draw(st.lists(st.tuples(st.integers(1, nh - 2), st.one_of(st.integers(1, 60), st.integers(60, 24 * 20))), max_size=4))
    c["dups"] = draw(st.lists(st.tuples(st.integers(0, nh - 1), st.sampled_from(["after", "before_empty", "before_partial"])), max_size=4))
    c["zeros"] = draw(st.lists(st.integers(0, nh - 1), max_size=5))
    c["odd"] = draw(st.lists(st.tuples(st.integers(0, nh - 1), st.sampled_from([1e-6, 1e-300, -0.5, -1e-9, 1e9])), max_size=4))
    c["empty_col"] = draw(st.sampled_from([None, None, None, None, "ghi", "temperature"]))
    # timestamps as the index, or in a tz-aware `datetime` column (the other documented way in)
    c["entry"] = draw(st.sampled_from(["index", "index", "datetime_column"]))
    c["dtype"] = draw(st.sampled_from(["float64", "float64", "float64", "float32"]))  # parquet files deliver float32
    # pyranometers read a little below zero at night: negative irradiance is a supplied value like any other
    c["ghi_night_offset"] = draw(st.booleans())
    # a stretch of hours delivered a second time with other values, appended after the original rows (the frame is then not in time
    # order); the first delivery counts
    c["redelivered"] = draw(st.one_of(st.none(), st.none(), st.tuples(st.integers(0, nh - 1), st.integers(5, 300))))
    if draw(st.integers(0, 5)) == 0:
        # an otherwise perfect frame - whole local days, every temperature and usage reading present - whose only gaps are in the
        # irradiance column
        c.update({"aim": "none", "start_h": 24 * draw(st.integers(0, 400)), "extra_h": 0, "ghi": True, "nan_cells": [], "absent": [], "dups": [], "zeros": [],
                  "odd": [], "empty_col": None, "redelivered": None, "whole_days_only_ghi_gaps": True,
                  "nan_blocks": [(i, l, 2) for i, l, _ in draw(st.lists(st.tuples(st.integers(0, nh - 1), st.integers(1, 60), st.just(2)), min_size=1, max_size=3))]})
    return c


def build(c):
    tz = c["tz"]
    if c["aim"] == "none":
        start = pd.Timestamp("2018-01-01", tz="UTC") + pd.Timedelta(hours=c["start_h"])
        nh = max(c["ndays"] * 24 + c["extra_h"], 48)
        idx = pd.date_range(start, periods=nh, freq="h").tz_convert(tz)
        if idx[0].minute:  # :30/:45 zones: put the stamps on the local hour
            idx = idx - pd.Timedelta(minutes=int(idx[0].minute))
        if c.get("whole_days_only_ghi_gaps"):
            # from the first local midnight on, whole local days
            first = int(np.nonzero(idx.hour.values == 0)[0][0])
            idx = idx[first:]
            last = int(np.nonzero(idx.hour.values == 23)[0][-1])
            idx = idx[: last + 1]
    else:
        day = pd.Timestamp(c["dst"])
        day_start = day.tz_localize(tz, nonexistent="shift_forward", ambiguous=True).tz_convert("UTC")
        edge = day_start + pd.Timedelta(hours=c["edge_hour"])  # a real hour on (or just after) the DST day
        nh = max(c["ndays"] * 24 + c["extra_h"], 48)
        if c["aim"] == "end_on_dst":
            idx = pd.date_range(end=edge, periods=nh, freq="h").tz_convert(tz)
        else:
            idx = pd.date_range(start=edge, periods=nh, freq="h").tz_convert(tz)
    nh = len(idx)
    rng = np.random.default_rng(c["nseed"])
    cols = {"temperature": 50 + 20 * rng.random(nh), "observed": 1 + rng.random(nh)}
    if c["ghi"]:
        cols["ghi"] = 100 * rng.random(nh)
        if c.get("ghi_night_offset"):
            night = (idx.hour.values < 6) | (idx.hour.values > 19)
            cols["ghi"] = np.where(night, -0.5 - 2.5 * rng.random(nh), cols["ghi"])
    df = pd.DataFrame(cols, index=idx)
    names = list(cols)
    for i, j in c["nan_cells"]:
        df.iloc[i % nh, j % len(names)] = np.nan
    for i, l, j in c["nan_blocks"]:
        df.iloc[i % nh: i % nh + l, j % len(names)] = np.nan
    for i in c["zeros"]:
        df.iloc[i % nh, 1] = 0.0
    for i, v in c.get("odd", []):  # tiny, negative and huge readings are measurements too
        df.iloc[i % nh, 1] = v
    if c["empty_col"] in df.columns:
        df[c["empty_col"]] = np.nan
    keep = np.ones(nh, bool)
    for i, l in c["absent"]:
        keep[i % nh: i % nh + l] = False
    keep[0] = keep[-1] = True
    df = df[keep]
    if c["dups"]:
        parts = [df]
        for i, how in c["dups"]:
            row = df.iloc[[i % len(df)]].copy()
            row["observed"] = 777.0
            row["temperature"] = -5.0
            if how == "after":
                parts.append(row)  # later duplicate: must be ignored
            else:
                # the duplicate comes FIRST and is (partly) empty: the later, original row must still lose
                first = row.copy()
                first["observed"] = np.nan
                if how == "before_empty":
                    first["temperature"] = np.nan
                    if "ghi" in first:
                        first["ghi"] = np.nan
                parts.insert(0, first)
        df = pd.concat(parts).sort_index(kind="stable")
    if c.get("redelivered"):
        a, ln = c["redelivered"]
        first_rows = df[~df.index.duplicated(keep="first")]
        again = first_rows.iloc[a % len(first_rows): a % len(first_rows) + ln].copy()
        again["observed"] = 555.0 + np.arange(len(again))
        again["temperature"] = -7.0
        df = pd.concat([df, again])  # not sorted: the second delivery sits at the end of the frame
    if c.get("dtype") == "float32":
        df = df.astype("float32")
    return df


def expected_index(first, last, tz):
    lo = first.tz_localize(None).normalize()
    hi = last.tz_localize(None).normalize() + pd.Timedelta(hours=23)
    step = pd.Timedelta(hours=1)
    u0 = first.tz_convert("UTC") - pd.Timedelta(hours=30)
    u1 = last.tz_convert("UTC") + pd.Timedelta(hours=30)
    # hourly grid in UTC that contains `first` (zones with :30 offsets have UTC minute 30)
    u = pd.date_range(u0, u1, freq="h").tz_convert(tz)
    w = u.tz_localize(None)
    return u[(w >= lo) & (w <= hi)]


def bits(a):
    return np.ascontiguousarray(np.asarray(a, dtype=np.float64)).view(np.uint64)


def judge(c, rec):
    from opendsm import eemeter as em

    df = build(c)
    before = df.copy(deep=True)
    bidx = df.index.copy(deep=True)
    cls = em.HourlyReportingData if c["rep"] else em.HourlyBaselineData
    K = "rep" if c["rep"] else "base"
    tags = ["class=" + K, "tz=" + c["tz"], "aim=" + c["aim"], "size=" + ("<13d" if c["ndays"] < 13 else "<61d" if c["ndays"] < 61 else ">=61d"),
            "entry=" + c.get("entry", "index"), "dtype=" + c.get("dtype", "float64")]
    if c.get("entry") == "datetime_column":
        df_in = df.copy()
        df_in.insert(0, "datetime", df_in.index)
        df_in = df_in.reset_index(drop=True)
        in_before = df_in.copy(deep=True)
        d = cls(df_in, is_electricity_data=c["elec"])
        same = (list(df_in.columns) == list(in_before.columns) and df_in.index.equals(in_before.index)
                and str(df_in["datetime"].dtype) == str(in_before["datetime"].dtype) and (df_in["datetime"].values == in_before["datetime"].values).all()
                and np.array_equal(bits(df_in.drop(columns=["datetime"]).values), bits(in_before.drop(columns=["datetime"]).values)))
        if not same:
            rec.violation("input-modified/datetime-column", c, "the caller's frame was changed")
    else:
        d = cls(df, is_electricity_data=c["elec"])
    o = d.df
    if not (df.index.equals(bidx) and list(df.columns) == list(before.columns) and np.array_equal(bits(df.values), bits(before.values))):
        rec.violation("input-modified", c, "the caller's frame was changed")
    exp = expected_index(before.index.min(), before.index.max(), c["tz"])
    if not (len(o.index) == len(exp) and (o.index == exp).all()):
        rec.violation("index", c, "frame has %d rows %s..%s, expected %d rows %s..%s" % (len(o), o.index[0], o.index[-1], len(exp), exp[0], exp[-1]))
        rec.case(c, False, tags)
        return
    if o.index.has_duplicates or not o.index.is_monotonic_increasing:
        rec.violation("index-order", c, "index not unique/increasing")
    src = before[~before.index.duplicated(keep="first")]
    filled_any = False
    for col in [x for x in ["temperature", "observed", "ghi"] if x in src.columns]:
        s = src[col].astype(float).copy()
        if col == "observed" and c["elec"]:
            s[s == 0] = np.nan
        sup = s[np.isfinite(s)]
        if col not in o.columns or ("interpolated_" + col) not in o.columns:
            rec.violation("column-missing/" + col, c, "columns %s" % list(o.columns))
            continue
        got = o.loc[sup.index, col]
        if not np.array_equal(bits(got.values), bits(sup.values)):
            j = int(np.nonzero(bits(got.values) != bits(sup.values))[0][0])
            dup = bool(before.index.duplicated(keep=False)[before.index.get_indexer_for([sup.index[j]])[0]])
            rec.violation("value-changed/" + col + ("/duplicate" if dup else ""), c, "%s at %s: supplied %r, frame has %r" % (col, sup.index[j], sup.values[j], got.values[j]))
        flag = o["interpolated_" + col].astype(bool)
        supplied = pd.Series(False, index=o.index)
        supplied.loc[sup.index] = True
        expflag = (~supplied) & o[col].notna()
        if (flag & supplied).any():
            rec.violation("supplied-value-flagged/" + col, c, "%s at %s is flagged although it was supplied" % (col, o.index[(flag & supplied).values][0]))
        if (expflag & ~flag).any():
            rec.violation("filled-value-not-flagged/" + col, c, "%s at %s was filled but is not flagged" % (col, o.index[(expflag & ~flag).values][0]))
        if (flag & ~supplied & o[col].isna()).any():
            rec.violation("flag-on-missing/" + col, c, "%s flagged as interpolated but still NaN" % col)
        if o[col].isna().any() and len(sup) > 0:
            rec.violation("nan-left/" + col, c, "%d NaN left in %s although %d values were supplied" % (int(o[col].isna().sum()), col, len(sup)))
        filled_any = filled_any or bool(expflag.any())
    holes = bool(c["dups"]) or bool(c.get("redelivered")) or bool(c.get("whole_days_only_ghi_gaps")) or len(exp) > len(src)
    rec.case(c, bool(filled_any and holes), tags + ["dups=%d" % bool(c["dups"]), "elec=%d" % c["elec"], "ghi=%d" % c["ghi"],
                                                     "redelivered-block=%d" % bool(c.get("redelivered")), "only-ghi-gaps=%d" % bool(c.get("whole_days_only_ghi_gaps")), "negative-night-ghi=%d" % bool(c["ghi"] and c.get("ghi_night_offset"))])


def shards(tier, seed):
    per = 120 if tier == "quick" else 1200
    return [{"i": i, "n": per, "seed": mix(seed, ID, i)} for i in range(16)]


def run_shard(spec, rec):
    explore(cases(), judge, rec, max_examples=spec["n"], seed=spec["seed"], shrink=True)


def replay(case, rec):
    judge(case, rec)
