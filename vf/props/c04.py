"""C04 — the disqualification gate is fail-closed and survives storage."""
import contextlib
import json
import copy
import io

import numpy as np
import pandas as pd
from hypothesis import strategies as st

from ..core import exc_bucket, short
from ..gen import synth, zoo
from ..hyp import explore, mix

ID = "C04"
WARM = ["daily", "hourly"]
RULE = (
    "Cases: family (daily legacy/current, billing, hourly) x a generated noisy baseline carrying a set of 0-2 sufficiency "
    "defects from {too short, too long, usage gaps > 10%, temperature gaps > 10%, one month < 90% temperature, negative gas "
    "usage, poor fit, a span ending in a (season, weekend) group of 1-4 days} x ignore_disqualification at fit x at predict x stored-and-reloaded or not x reporting argument in {own "
    "reporting type, own baseline object, another family's data object, same type in another timezone} x fitted or unfitted "
    "model. Oracle (decision table): fit raises DataSufficiencyError iff the data carries a disqualification and the flag is "
    "false, otherwise returns a fitted model (any other exception is a violation); model disqualifications = data "
    "disqualifications (+ the poor-fit entry); predict raises for an unfitted model, a foreign type or another timezone, "
    "raises DisqualifiedModelError iff the model carries a disqualification and the flag is false, otherwise returns a frame; "
    "same outcomes after from_json(to_json()). Non-trivial: the model or data carries a disqualification (the flag decides) or "
    "the case crosses storage. Distinct = distinct case descriptions."
)
ASSUMPTIONS = [
    "the CalTRACK hourly wrapper has no sufficiency gate in this version and is not judged here",
    "when two reasons to raise coincide either exception is accepted",
    "which defects produce a disqualification is C10's subject; here the data object's own verdict feeds the table",
]
DEFECTS = ["short", "long", "gaps_u", "gaps_t", "month_t", "neg_gas", "poor", "very_short", "small_group", "poor_net"]
# first weekends of a season (default maps): the span ends on the Saturday (1 weekend day in the new season), the Sunday (2) or a week later (3-4)
SEASON_WEEKENDS = ["2018-06-02", "2018-11-03", "2019-06-01", "2017-11-04"]  # first Saturdays of summer / winter
SEASON_LAST_WEEKENDS = ["2018-02-24", "2018-09-29", "2019-02-23", "2017-09-30"]  # last Saturdays of winter / summer
# other zones per baseline zone: far away, same offset in winter only, same offset in summer only (never an alias of the same zone)
OTHER_TZ = {"America/Chicago": ["Europe/London", "America/Regina", "America/Bogota", "UTC"],
            "UTC": ["America/Chicago", "Europe/London", "Africa/Lagos"],
            "Europe/Berlin": ["UTC", "Africa/Lagos", "Africa/Johannesburg", "Europe/London"],
            "Australia/Sydney": ["UTC", "Australia/Brisbane", "Pacific/Noumea", "Asia/Tokyo"]}


@st.composite
def cases(draw, family=None):
    fam = family or draw(st.sampled_from(["daily", "daily", "billing", "hourly", "hourly"]))
    prof = {"daily": draw(st.sampled_from(["legacy", "legacy", "legacy", "legacy_dev_splits", "current"])) if family != "daily_current" else "current",
            "billing": "billing", "hourly": draw(st.sampled_from(["hourly_default", "hourly_thresholds", "hourly_robust", "hourly_adaptive_thresholds", "hourly_adaptive"]))}[fam if fam != "daily_current" else "daily"]
    if fam == "daily_current":
        fam = "daily"
    b = draw(zoo.baseline(family=fam, profiles=[prof], tzs=["America/Chicago", "UTC", "Europe/Berlin", "Australia/Sydney"]))
    b["ghi"] = False
    c = {"kind": "gate", "baseline": b}
    c["defects"] = sorted(set(draw(st.lists(st.sampled_from(DEFECTS), max_size=2))))
    if family == "daily_current" and draw(st.booleans()):
        c["defects"] = sorted(set(c["defects"] + ["small_group"]) - {"very_short", "long"})
    c["group_end"] = [draw(st.sampled_from(SEASON_WEEKENDS)), draw(st.sampled_from([0, 1, 1, 7]))]
    c["group_start"] = [draw(st.sampled_from(SEASON_LAST_WEEKENDS)), draw(st.sampled_from([0, -1, -5, -5, -8]))]
    c["group_mode"] = draw(st.sampled_from(["end", "start"]))
    c["group_n"] = draw(st.integers(125, 225))
    c["ign_fit"] = draw(st.booleans())
    c["ign_pred"] = draw(st.booleans())
    c["stored"] = draw(st.booleans())
    # how the model crosses storage: one JSON round trip, two of them, a to_dict() document loaded (twice from the same dict object;
    # or once, then written out with json.dumps and loaded from that text)
    c["store_route"] = draw(st.sampled_from(["json", "json", "json_twice", "dict", "dict_second_load", "dict_load_then_dump"]))
    # predict() calls made on the same model and the same data object before the judged one: (override flag, aggregation index)
    c["pre"] = draw(st.lists(st.tuples(st.booleans(), st.integers(0, 2)), max_size=2))
    c["agg_i"] = draw(st.integers(0, 2))
    c["arg"] = draw(st.sampled_from(["own_reporting", "own_reporting", "own_baseline", "foreign", "other_tz", "unfitted"]))
    c["rep"] = draw(zoo.reporting(b))
    c["other_tz_i"] = draw(st.integers(0, 3))
    # temperatures / usage delivered with an integer or float32 dtype (well formed; not a sufficiency defect)
    c["int_dtype"] = draw(st.sampled_from([None, None, None, None, "temperature", "both", "float32"]))
    return c


def defective_frame(c):
    b = dict(c["baseline"])
    d = c["defects"]
    fam = b["family"]
    if "very_short" in d and fam != "billing":  # two bills spread over days are piecewise constant: outside the noisy-usage domain
        b["n"] = 45
    elif "short" in d:
        b["n"] = 200 if fam != "hourly" else 100
    elif "long" in d:
        b["n"] = 400
    if "small_group" in d and fam != "hourly":
        # one (season, weekend) group has 1, 2 or 3-4 days: the span (shorter than a year, so the season occurs once) ends on
        # the first weekend of summer/winter, or starts just before the last weekend of winter/summer
        b["n"] = c["group_n"]
        if c["group_mode"] == "end":
            end = pd.Timestamp(c["group_end"][0]) + pd.Timedelta(days=c["group_end"][1])
            b["start_day"] = (end - pd.Timestamp("2017-01-01")).days - b["n"] + 1
        else:
            start = pd.Timestamp(c["group_start"][0]) + pd.Timedelta(days=c["group_start"][1])
            b["start_day"] = (start - pd.Timestamp("2017-01-01")).days
    df = zoo.raw_frame(b)
    rng = np.random.default_rng(b["noise_seed"] + 17)
    n = len(df)
    per = 24 if fam == "hourly" else 1
    ndays = n // per
    k = max(int(ndays * 0.16), 1)
    if "gaps_u" in d and ndays > 10:
        for s in rng.choice(np.arange(1, ndays - 1), min(k, ndays - 2), replace=False):
            df.iloc[s * per:(s + 1) * per, df.columns.get_loc("observed")] = np.nan
    if "gaps_t" in d and ndays > 10:
        for s in rng.choice(np.arange(1, ndays - 1), min(k, ndays - 2), replace=False):
            df.iloc[s * per:(s + 1) * per, df.columns.get_loc("temperature")] = np.nan
    if "month_t" in d and ndays > 50:
        df.iloc[40 * per:46 * per, df.columns.get_loc("temperature")] = np.nan
    if "neg_gas" in d:
        df.iloc[10 * per, df.columns.get_loc("observed")] = -5.0
    if "poor" in d:
        df["observed"] = np.abs(rng.standard_cauchy(n)) * 5 + 0.01
    if "poor_net" in d and fam == "hourly":
        # a net exporter: heavy-tailed usage with a negative mean (CVRMSE undefined, PNRMSE poor)
        df["observed"] = -np.abs(rng.standard_cauchy(n)) * 5 - 0.01
    if c.get("int_dtype") == "float32":
        for col in ("temperature", "observed"):
            df[col] = df[col].astype("float32")
    elif c.get("int_dtype"):
        for col in (("temperature",) if c["int_dtype"] == "temperature" else ("temperature", "observed")):
            if col in df.columns and np.isfinite(df[col].values.astype(float)).all() and fam != "billing":
                df[col] = np.round(df[col].values.astype(float) * (1 if col == "temperature" else 10)).astype("int64")
    return df, b


_CACHE = {}


def judge(c, rec):
    from opendsm.eemeter.common.exceptions import DataSufficiencyError, DisqualifiedModelError

    b0 = c["baseline"]
    fam = b0["family"]
    df, b = defective_frame(c)
    if "neg_gas" in c["defects"]:
        b["electric"] = False
    Base, Rep = zoo.data_classes(fam)
    cls = ["family=" + fam, "profile=" + b0["profile"], "arg=" + c["arg"], "stored=%d" % c["stored"], "ign_fit=%d" % c["ign_fit"], "int-dtype=%d" % bool(c.get("int_dtype")),
           "ign_pred=%d" % c["ign_pred"]] + ["defect=" + x for x in (c["defects"] or ["none"])]
    with contextlib.redirect_stdout(io.StringIO()):
        data = Base(df.copy(), is_electricity_data=b["electric"])
    data_dq = sorted(w.qualified_name for w in data.disqualification)
    # ---- fit
    m = zoo.new_model(b)
    fit_ok = False
    try:
        with contextlib.redirect_stdout(io.StringIO()):
            r = m.fit(data, ignore_disqualification=c["ign_fit"])
        if data_dq and not c["ign_fit"]:
            rec.violation(fam + "/fit/no-DataSufficiencyError", c, "fit returned although the data carries %s and ignore_disqualification=False" % data_dq)
        if r is not m or not getattr(m, "is_fitted", False):
            rec.violation(fam + "/fit/not-fitted", c, "fit did not return the fitted model")
        fit_ok = True
    except DataSufficiencyError:
        rec.expected("DataSufficiencyError")
        if not (data_dq and not c["ign_fit"]):
            rec.violation(fam + "/fit/spurious-DataSufficiencyError", c, "data DQ %s, ignore_disqualification=%s" % (data_dq, c["ign_fit"]))
    except Exception as e:
        bkt = exc_bucket(e)
        if bkt is None:
            raise
        rec.violation("%s/fit/raises/%s" % (fam, bkt), c, "%s: %s (data DQ %s, ignore=%s)" % (type(e).__name__, short(e, 160), data_dq, c["ign_fit"]))
        rec.case(c, bool(data_dq), cls + ["fit=other-exception"])
        return
    if not fit_ok:
        # continue with an overridden fit so that predict is judged too
        with contextlib.redirect_stdout(io.StringIO()):
            data = Base(df.copy(), is_electricity_data=b["electric"])
        m = zoo.new_model(b)
        try:
            with contextlib.redirect_stdout(io.StringIO()):
                m.fit(data, ignore_disqualification=True)
        except Exception as e:
            bkt = exc_bucket(e)
            if bkt is None:
                raise
            rec.violation("%s/fit/raises/%s" % (fam, bkt), c, "%s: %s (ignore=True)" % (type(e).__name__, short(e, 160)))
            rec.case(c, True, cls + ["fit=other-exception"])
            return
    model_dq = sorted(w.qualified_name for w in m.disqualification)
    poor = {"daily": "eemeter.model_fit_metrics.cvrmse", "billing": "eemeter.model_fit_metrics.cvrmse", "hourly": "eemeter.model_fit_metrics"}[fam]
    if sorted(x for x in model_dq if x != poor) != data_dq:
        rec.violation(fam + "/model-dq-differs-from-data-dq", c, "data %s, model %s" % (data_dq, model_dq))
    if model_dq.count(poor) > 1:
        rec.violation(fam + "/poor-fit-entry-duplicated", c, str(model_dq))
    # the poor-fit entry is present exactly when the fit misses its threshold(s), whatever flag fit() was given
    try:
        if fam == "hourly":
            bm = m.baseline_metrics
            cv, pn = bm.cvrmse_adj, bm.pnrmse_adj
            poor_fit = not ((cv is not None and cv < m.settings.cvrmse_threshold) or (pn is not None and pn < m.settings.pnrmse_threshold))
        else:
            poor_fit = bool(m.error["CVRMSE"] > m.settings.cvrmse_threshold)
        if poor_fit != (poor in model_dq):
            rec.violation(fam + "/poor-fit-entry-wrong", c, "fit misses its threshold=%s but poor-fit disqualification present=%s (fit flag %s; warnings %s)" % (
                poor_fit, poor in model_dq, c["ign_fit"], [w.qualified_name for w in m.warnings if "model_fit" in w.qualified_name]))
    except AttributeError:
        pass
    # ---- storage
    Model = zoo.model_class(fam)
    if c["stored"]:
        route = c.get("store_route", "json")
        cls = cls + ["store_route=" + route]
        if route == "json":
            m_used = Model.from_json(m.to_json())
        elif route == "json_twice":
            m_used = Model.from_json(Model.from_json(m.to_json()).to_json())
        else:
            # a stored document stays usable after it has been loaded: it can be loaded again and written out
            doc = m.to_dict()
            first = Model.from_dict(doc)
            if route == "dict":
                m_used = first
            elif route == "dict_second_load":
                m_used = Model.from_dict(doc)
            else:
                try:
                    text = json.dumps(doc)
                except TypeError as e:
                    rec.violation(fam + "/stored-document-unusable-after-load", c, "json.dumps(document) after from_dict(document): %s" % short(e, 120))
                    text = m.to_json()
                m_used = Model.from_json(text)
        dq2 = sorted(w.qualified_name for w in m_used.disqualification)
        if dq2 != model_dq:
            rec.violation(fam + "/stored-dq-differs", c, "%s -> %s (%s)" % (model_dq, dq2, route))
    else:
        m_used = m
    # ---- predict argument
    arg = c["arg"]
    tz = b["tz"]
    rb = dict(b0, n=b0["n"])
    if arg == "unfitted":
        m_used = zoo.new_model(b)
    with contextlib.redirect_stdout(io.StringIO()):
        if arg in ("own_reporting", "unfitted"):
            rep = zoo.build_reporting(b, c["rep"])
        elif arg == "own_baseline":
            rep = Base(df.copy(), is_electricity_data=b["electric"])
        elif arg == "other_tz":
            others = OTHER_TZ.get(tz, ["UTC"])
            other = others[c.get("other_tz_i", 0) % len(others)]
            cls = cls + ["other_tz=%s->%s" % (tz, other)]
            fr = zoo.reporting_frame(dict(b, tz=other), c["rep"])
            if fam == "hourly" and c.get("other_tz_i", 0) % 2 == 1:
                fr["ghi"] = 150.0  # an irradiance column the (non-solar) model does not use must not disarm the guard
                cls = cls + ["other_tz+ghi"]
            rep = zoo.build_reporting(dict(b, tz=other), c["rep"], frame=fr)
        else:
            # a data object of another family (each of the other two, reporting class): daily <- billing / hourly, billing <- daily / hourly ...
            options = [f for f in ("daily", "billing", "hourly") if f != fam]
            ofam = options[c.get("other_tz_i", 0) % 2]
            cls = cls + ["foreign=%s<-%s" % (fam, ofam)]
            ob = dict(b, family=ofam, ghi=False)
            r2 = dict(c["rep"], n=max(c["rep"]["n"], 40) if ofam != "hourly" else min(c["rep"]["n"], 30))
            rep = zoo.build_reporting(ob, r2)
    must_raise = arg in ("unfitted", "foreign", "other_tz")
    K = "%s/predict/%s" % (fam, arg)
    AGGS = [None, "monthly", "bimonthly"]
    # the gate is judged on every call of a short history on the same model and data object: an earlier call (with the override,
    # at another aggregation level) must not decide a later one
    calls = [(bool(f), int(a)) for f, a in c.get("pre", [])] + [(bool(c["ign_pred"]), int(c.get("agg_i", 0)))]
    cls = cls + ["calls=%d" % len(calls)]
    if len(calls) > 1 and any(f for f, _ in calls[:-1]) and not calls[-1][0]:
        cls = cls + ["override-then-plain"]
    for pos, (flag, agg_i) in enumerate(calls):
        kw = {"ignore_disqualification": flag}
        if fam == "billing" and AGGS[agg_i] is not None:
            kw["aggregation"] = AGGS[agg_i]
        exc = None
        try:
            with contextlib.redirect_stdout(io.StringIO()):
                out = m_used.predict(rep, **kw)
            outcome = "frame"
        except DisqualifiedModelError:
            outcome = "DisqualifiedModelError"
        except Exception as e:
            outcome = "other:" + type(e).__name__
            exc = e
        tag = "" if pos == len(calls) - 1 and len(calls) == 1 else "/call%d-of-%d" % (pos + 1, len(calls))
        if must_raise:
            if outcome == "frame":
                rec.violation(K + "/predicted-instead-of-raising" + tag, c, "predict returned a frame of %d rows for %s" % (len(out), arg))
            else:
                rec.expected(outcome)
        else:
            want = "DisqualifiedModelError" if (model_dq and not flag) else "frame"
            if outcome != want:
                if outcome.startswith("other:"):
                    bkt = exc_bucket(exc)
                    if bkt is None:
                        raise exc
                    rec.violation("%s/raises/%s" % (K, bkt), c, "%s: %s" % (type(exc).__name__, short(exc, 160)))
                else:
                    rec.violation(K + "/wrong-outcome" + tag, c, "model DQ %s, ignore_disqualification=%s, stored=%s, calls so far %s: got %s, expected %s" % (
                        model_dq, flag, c["stored"], calls[:pos], outcome, want))
            elif outcome == "frame" and not isinstance(out, pd.DataFrame):
                rec.violation(K + "/not-a-frame", c, type(out).__name__)
    rec.case(c, bool(model_dq or data_dq or c["stored"]), cls + ["dq=%d" % bool(model_dq), "outcome=" + outcome.split(":")[0]])


def shards(tier, seed):
    q = tier == "quick"
    out = []
    for i in range(5):
        out.append({"family": "daily", "n": 14 if q else 150, "seed": mix(seed, ID, "daily", i)})
    for i in range(4):
        out.append({"family": "billing", "n": 12 if q else 120, "seed": mix(seed, ID, "billing", i)})
    for i in range(6):
        out.append({"family": "hourly", "n": 7 if q else 70, "seed": mix(seed, ID, "hourly", i)})
    for i in range(2):
        out.append({"family": "daily_current", "n": 5 if q else 40, "seed": mix(seed, ID, "daily_current", i)})
    return out


def run_shard(spec, rec):
    explore(cases(family=spec["family"]), judge, rec, max_examples=spec["n"], seed=spec["seed"], shrink=False)


def replay(case, rec):
    judge(case, rec)
