"""C12 — every fitted daily/billing model is physically admissible and well formed."""
import contextlib
import io
import math

import numpy as np
import pandas as pd
from hypothesis import strategies as st

from ..gen import synth
from ..hyp import explore, mix
from ..ref import daily_curve as rc

ID = "C12"
WARM = ["daily"]
RULE = (
    "Cases: generated baselines over the regimes the quantifier lists (heating-only, cooling-only, both, flat with noise; "
    "weekday/weekend and seasonal level shifts; outliers; noise 0.5-30%; 330-365 days; daily and monthly-billed) with a share of "
    "awkward weather (narrow temperature range, balance point near the edge of the data, few hot or cold days), a share with a one-off "
    "base-load step part-way through the year or a response only on the 3-6 most extreme days, fitted under the "
    "current, legacy and billing profiles. Oracle per stored sub-model (segment days recomputed from the data with the "
    "document's own calendar maps): finite numbers; heating balance point <= cooling one; both inside the segment's temperature "
    "range; slope signs per the JSON convention and non-zero when declared; smoothing >= 0; base load within the segment's usage "
    "range; uncertainty finite and >= 0; model_type <-> set of non-null coefficients; T_min/T_max = extremes of the segment's "
    "temperatures, T_*_seg = its segment_minimum_count-th order statistics. Curve agreement: for every entry of fit_components "
    "and of the final model, eval(component.T) equals component.model (relative 1e-9); a mismatch is keyed by its cause using "
    "the raw optimiser vector (hook H1); the reference curve of the JSON coefficients equals eval() at the component's temperatures. Non-trivial: the fit selected a sloped shape, or a split, or a coefficient on a bound. "
    "Distinct = distinct case descriptions."
)
ASSUMPTIONS = [
    "a segment whose usage is constant to 1e-12 is classified degenerate and not judged (zero residuals: 0/0 uncertainty)",
    "range clauses carry a tolerance of 1e-9 of the range",
    "the base-load clause is judged against the segment's usage range",
]


@st.composite
def cases(draw, profile=None):
    prof = profile or draw(st.sampled_from(["legacy", "legacy", "billing", "current"]))
    shape = draw(st.sampled_from(["both", "heating", "cooling", "flat"]))
    c = {"kind": "fit", "profile": prof, "shape": shape, "n": draw(st.integers(330, 365)), "start_day": draw(st.integers(0, 700)),
         "tz": draw(st.sampled_from(synth.ZONES_SAFE_MIDNIGHT)), "seed": draw(st.integers(0, 2 ** 20)),
         "base": draw(st.floats(2, 60)), "hs": draw(st.floats(0.1, 4)) if shape in ("both", "heating") else 0.0,
         "cs": draw(st.floats(0.1, 4)) if shape in ("both", "cooling") else 0.0,
         "hb": draw(st.floats(35, 62)), "gap": draw(st.floats(0, 25)),
         "noise": draw(st.sampled_from([0.005, 0.02, 0.1, 0.3])), "weekend_shift": draw(st.sampled_from([0.0, 0.0, 0.4, -0.4])),
         "season_shift": draw(st.sampled_from([0.0, 0.0, 0.5, -0.4])), "outliers": draw(st.sampled_from([0, 0, 3, 8])),
         "weather": draw(st.sampled_from(["normal", "normal", "narrow", "hot", "cold", "edge"])), "south": draw(st.booleans())}
    # non-weather regimes: a one-off base-load step part-way through the year (strongly autocorrelated residuals), and a site
    # that responds to temperature only on its few most extreme days (balance points pushed onto the same bound)
    c["step"] = draw(st.sampled_from([None, None, None, [0.55, 1.0], [0.4, 0.5], [0.7, -0.5]]))
    c["extreme_days"] = draw(st.sampled_from([None, None, None, [3, "hot"], [5, "cold"], [6, "hot"], [4, "both"]]))
    if c["step"] is not None:
        c["noise"] = draw(st.sampled_from([0.002, 0.005, 0.02]))
    # a net-metered site that exports more than it consumes on every day: the whole usage series lies below zero (or straddles it)
    c["net_offset"] = draw(st.sampled_from([None, None, None, None, None, 1.3, 2.5, 0.6]))
    # the model object was fitted to another site first (an object re-used in a loop): everything recorded afterwards is about this baseline
    c["prefit"] = draw(st.sampled_from([None, None, None, "cold-large", "hot-small"]))
    # a building whose load sets in gradually (a knee several degrees wide instead of a kink): the smoothed shapes' natural home
    c["soft_knee"] = draw(st.sampled_from([None, None, None, 4.0, 8.0, 12.0]))
    return c


def build(c):
    w = {"normal": {"mean": 55, "amp": 25, "sd": 5}, "narrow": {"mean": 62, "amp": 6, "sd": 2}, "hot": {"mean": 75, "amp": 12, "sd": 4},
         "cold": {"mean": 35, "amp": 12, "sd": 4}, "edge": {"mean": c["hb"] + 12, "amp": 14, "sd": 3}}[c["weather"]]
    w = dict(w, south=c["south"])
    df = synth.daily_frame(n=c["n"], tz=c["tz"], start_day=c["start_day"], noise_seed=c["seed"], weather=w,
                           usage={"base": c["base"], "hs": c["hs"], "hb": c["hb"], "cs": c["cs"], "cb": c["hb"] + c["gap"]},
                           noise=c["noise"], additive=0.0, weekend_shift=c["weekend_shift"], season_shift=c["season_shift"], outliers=c["outliers"])
    if c.get("soft_knee") and not c.get("extreme_days"):
        w = float(c["soft_knee"])
        T = df["temperature"].values
        rng = np.random.default_rng(c["seed"] + 9)
        soft = lambda z: w * np.logaddexp(0.0, z / w)  # softplus: a kink rounded over about w degrees
        y = c["base"] + c["hs"] * soft(c["hb"] - T) + c["cs"] * soft(T - (c["hb"] + c["gap"]))
        df["observed"] = y * (1 + c["noise"] * np.clip(rng.normal(0, 0.5, len(T)), -1, 1))
    if c.get("extreme_days"):
        k, side = c["extreme_days"]
        T = df["temperature"].values
        rng = np.random.default_rng(c["seed"] + 5)
        obs = c["base"] * (1 + c["noise"] * np.clip(rng.normal(0, 0.5, len(T)), -1, 1))
        order = np.argsort(T)
        if side in ("hot", "both"):
            hot = order[-k:]
            obs[hot] += 0.15 * c["base"] * (1 + np.arange(k))
        if side in ("cold", "both"):
            cold = order[:k][::-1]
            obs[cold] += 0.15 * c["base"] * (1 + np.arange(k))
        df["observed"] = obs
    if c.get("step"):
        frac, rel = c["step"]
        k = int(frac * len(df))
        df.iloc[k:, df.columns.get_loc("observed")] += rel * c["base"]
    df["observed"] = np.abs(df["observed"]) + 1e-3
    if c.get("net_offset"):
        df["observed"] = df["observed"] - c["net_offset"] * float(df["observed"].max())
    return df


def order_stat(T, k):
    s = np.sort(T)
    return s[k], s[-k]


def judge(c, rec):
    from opendsm import eemeter as em

    df = build(c)
    prof = c["profile"]
    with contextlib.redirect_stdout(io.StringIO()):
        if prof == "billing":
            idx = df.index
            first = ~pd.Series(list(zip(idx.year, idx.month)), index=idx).duplicated()
            months = df["observed"].groupby([idx.year, idx.month]).transform("sum")
            b = pd.DataFrame({"temperature": df["temperature"], "observed": np.nan}, index=idx)
            b.loc[first.values, "observed"] = months[first.values]
            data = em.BillingBaselineData(b, is_electricity_data=True)
            m = em.BillingModel()
        else:
            data = em.DailyBaselineData(df, is_electricity_data=True)
            m = em.DailyModel(model="legacy") if prof == "legacy" else em.DailyModel()
        if c.get("prefit"):
            cold = c["prefit"] == "cold-large"
            other = synth.daily_frame(n=360, tz=c["tz"], start_day=c["start_day"] + 3, noise_seed=c["seed"] + 77,
                                      weather={"mean": 38 if cold else 78, "amp": 22 if cold else 10, "sd": 4, "south": c["south"]},
                                      usage={"base": 60.0 if cold else 6.0, "hs": 2.5 if cold else 0.0, "hb": 55.0, "cs": 0.0 if cold else 0.6, "cb": 68.0},
                                      noise=0.05, additive=0.0, weekend_shift=0.3 if cold else 0.0, season_shift=0.0)
            if prof == "billing":
                oi = other.index
                ofirst = ~pd.Series(list(zip(oi.year, oi.month)), index=oi).duplicated()
                omonths = other["observed"].groupby([oi.year, oi.month]).transform("sum")
                ob = pd.DataFrame({"temperature": other["temperature"], "observed": np.nan}, index=oi)
                ob.loc[ofirst.values, "observed"] = omonths[ofirst.values]
                odata = em.BillingBaselineData(ob, is_electricity_data=True)
            else:
                odata = em.DailyBaselineData(other, is_electricity_data=True)
            m.fit(odata, ignore_disqualification=True)
        m.fit(data, ignore_disqualification=True)
    doc = m.to_dict()
    dd = data.df
    ok_rows = np.isfinite(dd["temperature"].values.astype(float)) & np.isfinite(dd["observed"].values.astype(float))
    dd = dd[ok_rows]
    routes = rc.route(dd.index, list(doc["submodels"]), doc["settings"])
    K = prof
    cls = ["profile=" + prof, "shape=" + c["shape"], "weather=" + c["weather"], "usage-sign=" + ("positive" if not c.get("net_offset") else "negative" if c["net_offset"] > 1 else "mixed")]
    kmin = doc["settings"]["segment_minimum_count"]
    sloped = False
    onbound = False
    for name, sm in doc["submodels"].items():
        sel = np.array([name in r for r in routes])
        Ts = dd["temperature"].values.astype(float)[sel]
        ys = dd["observed"].values.astype(float)[sel]
        co, tc = sm["coefficients"], sm["temperature_constraints"]
        mt = co["model_type"]
        if len(Ts) == 0:
            rec.violation(K + "/empty-segment", c, "sub-model %s has no baseline days" % name)
            continue
        if ys.max() - ys.min() <= 1e-12 * max(1.0, abs(ys.max())):
            rec.note("degenerate-constant-segment")
            continue
        nums = [v for v in co.values() if isinstance(v, (int, float)) and not isinstance(v, bool)] + list(tc.values()) + [sm["f_unc"]]
        if not all(math.isfinite(v) for v in nums):
            rec.violation(K + "/non-finite", c, "%s: %s %s f_unc=%r" % (name, co, tc, sm["f_unc"]))
            continue
        hb, cb = co["hdd_bp"], co["cdd_bp"]
        rng_T = Ts.max() - Ts.min()
        tolT = 1e-9 * max(rng_T, 1.0)
        if hb is not None and cb is not None and hb > cb:
            rec.violation(K + "/balance-points-crossed", c, "%s: hdd_bp %r > cdd_bp %r" % (name, hb, cb))
        for nm, bp in (("hdd_bp", hb), ("cdd_bp", cb)):
            if bp is not None and not (Ts.min() - tolT <= bp <= Ts.max() + tolT):
                rec.violation(K + "/balance-point-outside-temperatures/" + nm, c, "%s: %s=%r, segment temperatures %r..%r" % (name, nm, bp, Ts.min(), Ts.max()))
            if bp is not None and (abs(bp - tc["T_min_seg"]) <= tolT or abs(bp - tc["T_max_seg"]) <= tolT):
                onbound = True
        present = {k for k in ("hdd_bp", "hdd_beta", "hdd_k", "cdd_bp", "cdd_beta", "cdd_k") if co[k] is not None}
        want = {"hdd_tidd_cdd_smooth": {"hdd_bp", "hdd_beta", "hdd_k", "cdd_bp", "cdd_beta", "cdd_k"}, "hdd_tidd_cdd": {"hdd_bp", "hdd_beta", "cdd_bp", "cdd_beta"},
                "hdd_tidd_smooth": {"hdd_bp", "hdd_beta", "hdd_k"}, "hdd_tidd": {"hdd_bp", "hdd_beta"}, "tidd_cdd_smooth": {"cdd_bp", "cdd_beta", "cdd_k"},
                "tidd_cdd": {"cdd_bp", "cdd_beta"}, "tidd": set()}[mt]
        if present != want:
            rec.violation(K + "/type-vs-coefficients", c, "%s: model_type %s with coefficients %s" % (name, mt, sorted(present)))
            continue
        if mt != "tidd":
            sloped = True
        if mt.startswith("hdd_tidd_cdd"):
            if not (co["hdd_beta"] > 0 and co["cdd_beta"] > 0):
                rec.violation(K + "/slope-sign-or-zero/two-sided", c, "%s: hdd_beta=%r cdd_beta=%r" % (name, co["hdd_beta"], co["cdd_beta"]))
        elif mt.startswith("hdd_tidd"):
            if not co["hdd_beta"] < 0:
                rec.violation(K + "/slope-sign-or-zero/heating", c, "%s: hdd_beta=%r (JSON convention: negative for a heating-only model)" % (name, co["hdd_beta"]))
        elif mt.startswith("tidd_cdd"):
            if not co["cdd_beta"] > 0:
                rec.violation(K + "/slope-sign-or-zero/cooling", c, "%s: cdd_beta=%r" % (name, co["cdd_beta"]))
        for kk in ("hdd_k", "cdd_k"):
            if co[kk] is not None and co[kk] < 0:
                rec.violation(K + "/negative-smoothing", c, "%s: %s=%r" % (name, kk, co[kk]))
        toly = 1e-9 * max(ys.max() - ys.min(), 1e-12)
        if not (ys.min() - toly <= co["intercept"] <= ys.max() + toly):
            rec.violation(K + "/base-load-outside-usage", c, "%s: intercept %r, segment usage %r..%r" % (name, co["intercept"], ys.min(), ys.max()))
        if not (sm["f_unc"] >= 0):
            rec.violation(K + "/negative-uncertainty", c, "%s: f_unc=%r" % (name, sm["f_unc"]))
        if abs(tc["T_min"] - Ts.min()) > tolT or abs(tc["T_max"] - Ts.max()) > tolT:
            rec.violation(K + "/temperature-limits", c, "%s: recorded %r..%r, segment %r..%r" % (name, tc["T_min"], tc["T_max"], Ts.min(), Ts.max()))
        if len(Ts) > 2 * kmin:
            lo, hi = order_stat(Ts, kmin)
            if abs(tc["T_min_seg"] - lo) > tolT or abs(tc["T_max_seg"] - hi) > tolT:
                rec.violation(K + "/segment-limits", c, "%s: recorded %r..%r, order statistics %r..%r" % (name, tc["T_min_seg"], tc["T_max_seg"], lo, hi))
    # curve agreement: the coefficients kept for each component reproduce its fitted values
    comps = [("initial:" + k, v) for k, v in m.fit_components.items()] + [("final:" + k, v) for k, v in m.model.items()]
    for nm, comp in comps:
        ev = comp.eval(comp.T)[0]
        scale = 1 + float(np.max(np.abs(comp.model)))
        err = float(np.max(np.abs(ev - comp.model))) / scale
        if err > 1e-9:
            raw = getattr(comp, "_verif_raw_x", None)
            rkey = getattr(comp, "_verif_raw_model_key", None)
            cause = "unattributed"
            if raw is not None:
                if rkey in ("hdd_tidd_cdd_smooth", "hdd_tidd_cdd"):
                    hbp, cbp = (raw[0], raw[3]) if rkey == "hdd_tidd_cdd_smooth" else (raw[0], raw[2])
                    if hbp > cbp:
                        cause = "raw-balance-points-crossed"
                    elif comp.model_key.startswith("c_hdd") or comp.model_key == "tidd":
                        cause = "two-sided-reduced-then-clipped"
                    else:
                        cause = "two-sided-other"
                elif rkey in ("c_hdd_tidd", "c_hdd_tidd_smooth"):
                    bp = raw[0]
                    if bp >= comp.T_max - 1e-9 or bp <= comp.T_min + 1e-9:
                        cause = "one-sided-pinned-at-temperature-limit"
                    elif bp > comp.T_max_seg or bp < comp.T_min_seg:
                        cause = "one-sided-clipped-to-segment-limits"
                    else:
                        cause = "one-sided-other"
            stage = nm.split(":")[0]
            rec.violation("%s/curve-mismatch/%s/%s" % (K, stage, cause), c, "%s (%s): stored coefficients give fitted values off by %.3g (relative to 1+max); raw vector %s" % (
                nm, comp.model_key, err, None if raw is None else [round(float(v), 4) for v in raw]))
    # eval() is a function of each temperature by itself: the component's temperatures in calendar order (not sorted) give the same
    # fitted value, uncertainty and load split for every day
    for nm, comp in comps:
        if len(comp.T) < 3:
            continue
        perm = np.random.default_rng(len(comp.T)).permutation(len(comp.T))
        a, bq = comp.eval(comp.T), comp.eval(np.asarray(comp.T)[perm])
        for j, part in enumerate(("model", "uncertainty", "heating load", "cooling load")):
            x, y = np.asarray(a[j], float), np.asarray(bq[j], float)
            if x.shape == y.shape and x.ndim == 1 and len(x) == len(perm) and not np.allclose(x[perm], y, rtol=1e-12, atol=1e-12 * (1 + float(np.max(np.abs(x)))), equal_nan=True):
                i = int(np.argmax(np.abs(x[perm] - y)))
                rec.violation(K + "/eval-depends-on-order", c, "%s: %s at T=%r is %r in sorted order and %r when the days come in another order" % (
                    nm, part, float(np.asarray(comp.T)[perm][i]), float(x[perm][i]), float(y[i])))
                break
    # the coefficients written to the document are the ones eval() uses: the reference curve of the JSON coefficients at the
    # component's own temperatures equals eval() (both are read-back paths; independent of the known clipping findings)
    for name, comp in m.model.items():
        sm = doc["submodels"].get(name)
        if sm is None:
            continue
        ref = rc.curve(sm["coefficients"], sm["temperature_constraints"], comp.T)[0]
        ev = comp.eval(comp.T)[0]
        scale = 1 + float(np.max(np.abs(ev)))
        err = float(np.max(np.abs(ref - ev))) / scale
        if err > 1e-9:
            i = int(np.argmax(np.abs(ref - ev)))
            rec.violation(K + "/kept-coefficients-differ-from-eval", c, "%s: JSON coefficients give %r at T=%r, the component's eval() %r (model_type %s)" % (
                name, float(ref[i]), float(comp.T[i]), float(ev[i]), sm["coefficients"]["model_type"]))
    split = "__" in (m.best_combination or "")
    cls = cls + ["step=%d" % bool(c.get("step")), "extreme-days=%d" % bool(c.get("extreme_days")), "reused-object=%d" % bool(c.get("prefit")), "soft-knee=%d" % bool(c.get("soft_knee"))]
    rec.case(c, bool(sloped or split or onbound), cls + ["split=%d" % split, "sloped=%d" % sloped])


def shards(tier, seed):
    q = tier == "quick"
    out = []
    for i in range(6):
        out.append({"profile": "legacy", "n": 14 if q else 150, "seed": mix(seed, ID, "legacy", i)})
    for i in range(4):
        out.append({"profile": "billing", "n": 12 if q else 120, "seed": mix(seed, ID, "billing", i)})
    for i in range(6):
        out.append({"profile": "current", "n": 4 if q else 40, "seed": mix(seed, ID, "current", i)})
    return out


def run_shard(spec, rec):
    explore(cases(profile=spec["profile"]), judge, rec, max_examples=spec["n"], seed=spec["seed"], shrink=False)


def replay(case, rec):
    judge(case, rec)
