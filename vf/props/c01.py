"""C01 — a stored model reproduces its counterfactual exactly."""
import copy
import json

import numpy as np
import pandas as pd
from hypothesis import strategies as st

from ..core import exc_bucket, short
from ..gen import params as gp
from ..gen import zoo
from ..hyp import explore, mix
from ..ref import daily_curve as rc

ID = "C01"
WARM = ["daily", "hourly"]
RULE = (
    "Two sub-domains. fitted: a generated baseline x family (daily, billing, hourly, CalTRACK hourly) x constructor profile "
    "(daily: legacy, custom season / weekday maps, developer overrides of full_model / smoothing / alpha_final_type / split flags "
    "/ criteria, current; billing: default, season map, developer overrides; hourly: default, explicit solar / non-solar objects, "
    "train_features, robust scaler, edge rate, adaptive weights, random selection, cluster settings, thresholds) x 3 reporting "
    "sets (1 day .. 1 year, inside and outside the fitted temperature range, with/without usage); the model is stored with "
    "to_json and reloaded. docs: parameter documents over all 7 shapes x all exact-cover split layouts x calendar maps, evaluated "
    "on a [-60,140]F sweep containing every balance point and its float neighbours. Oracle: predictions of original and reloaded "
    "model bit-identical; to_json idempotent; timezone, warnings, disqualifications kept; daily/billing predictions equal the "
    "documented formula evaluated from the JSON text alone. Non-trivial: the model has at least one slope and (fitted) some "
    "reporting temperature lies outside the fitted range, or (docs) the sweep has points on both sides of every balance point. "
    "Distinct = distinct case descriptions."
)
ASSUMPTIONS = [
    "the formula clause is asserted on the admissible parameter region (balance points strictly inside the recorded limits)",
    "tolerance against the reference formula: 1e-9*scale + 1e-12*|y|; round trips are bit-exact",
    "within 1e-9 degrees of a balance point the formula clause is not asserted (the shifted points are rounded)",
]


def wtriples(ws):
    out = []
    for w in ws or []:
        if isinstance(w, dict):
            out.append((w.get("qualified_name"), w.get("description"), json.dumps(w.get("data"), sort_keys=True, default=str)))
        else:
            out.append((w.qualified_name, w.description, json.dumps(w.data, sort_keys=True, default=str)))
    return out


@st.composite
def fitted_cases(draw, family=None, cheap=True, profiles=None):
    b = draw(zoo.baseline(family=family, cheap=cheap, full_year=False, profiles=profiles))
    if b["family"] == "hourly" and draw(st.integers(0, 3)) == 0:
        b["net_export"] = True  # solar site exporting more than it uses: mean usage below zero, some normalised metrics undefined
    rs = [draw(zoo.reporting(b)) for _ in range(3)]
    rs[0]["T_shift"] = 0.0
    rs[1]["T_shift"] = draw(st.sampled_from([25.0, -30.0]))
    # one case in three: the model object has a past - it was fitted to another building, serialised and used before it is
    # fitted to this baseline (an object re-used in a loop); what is stored afterwards must be the present model
    return {"kind": "fitted", "baseline": b, "reporting": rs, "past": draw(st.sampled_from([None, None, "fit-serialise-predict"]))}


def check_formula(doc, out, key, c, rec):
    """daily/billing: predicted/heating/cooling/model_split equal the reference evaluation of the JSON document."""
    T = out["temperature"].values.astype(float)
    ref = rc.evaluate(doc, out.index, T)
    got_p = out["predicted"].values.astype(float)
    ok_rows = np.isfinite(got_p)
    # admissible region only
    for name, sm in doc["submodels"].items():
        co, tc = sm["coefficients"], sm["temperature_constraints"]
        for bp in (co.get("hdd_bp"), co.get("cdd_bp")):
            if bp is not None and not (tc["T_min"] < bp < tc["T_max"]):
                return "inadmissible"
    near = np.zeros(len(T), bool)
    scale = 1.0
    for name, sm in doc["submodels"].items():
        e = rc.effective(sm["coefficients"], sm["temperature_constraints"])
        scale = max(scale, abs(e[6]) + max(e[1], e[4]) * 220.0)
        for bp in (e[0], e[3]):
            if bp is not None:
                near |= np.abs(T - bp) <= 2e-7
    for col in ("predicted", "heating_load", "cooling_load"):
        g = out[col].values.astype(float)
        r = ref[col]
        m = ok_rows & ~near
        d = np.abs(g[m] - r[m])
        tol = 1e-9 * scale + 1e-12 * np.abs(r[m])
        if (~(d <= tol)).any():
            i = int(np.nonzero(~(d <= tol))[0][0])
            rec.violation(key + "/formula/" + col, c, "%s at %s (T=%r): predict gives %r, formula from the JSON gives %r" % (
                col, out.index[m][i], T[m][i], g[m][i], r[m][i]))
            return "mismatch"
    got_split = out["model_split"].tolist()
    for i in np.nonzero(ok_rows)[0]:
        if got_split[i] != ref["model_split"][i]:
            rec.violation(key + "/formula/model_split", c, "%s routed to %r, document says %r" % (out.index[i], got_split[i], ref["model_split"][i]))
            return "mismatch"
    return "ok"


ALIASES = {"America/Chicago": "US/Central", "America/New_York": "US/Eastern", "America/Los_Angeles": "US/Pacific", "Europe/London": "GB",
           "UTC": "Etc/UTC", "Australia/Sydney": "Australia/NSW", "Asia/Tokyo": "Japan", "Europe/Berlin": "Europe/Berlin"}


def judge_fitted(c, rec):
    b = c["baseline"]
    fam = b["family"]
    K = "%s/%s" % (fam, b["profile"])
    cls = ["sub=fitted", "family=" + fam, "profile=" + b["profile"]]
    if c.get("past"):
        other = dict(b, noise_seed=b["noise_seed"] + 1, start_day=b["start_day"] + 31,
                     usage=dict(b["usage"], base=b["usage"]["base"] * 1.7 + 3.0, hs=b["usage"]["cs"] + 0.4, cs=b["usage"]["hs"] + 0.2))
        m, odata = zoo.fit_fresh(other)
        try:
            m.to_json()
            m.to_dict()
            zoo.predict(m, other, odata)
        except Exception as e:
            rec.note("past-raises:" + type(e).__name__)
        data = zoo.build_baseline(b)
        import contextlib, io

        with contextlib.redirect_stdout(io.StringIO()):
            if fam == "caltrack":
                m.fit(data)
            else:
                m.fit(data, ignore_disqualification=True)
        data = zoo.build_baseline(b)
        cls.append("object-with-a-past")
    else:
        m, data = zoo.fitted(b)
    Model = zoo.model_class(fam)
    try:
        js = m.to_json()
    except Exception as e:
        rec.violation("%s/to_json-raises/%s" % (fam, exc_bucket(e) or type(e).__name__), c, short(e, 200))
        rec.case(c, False, cls)
        return
    try:
        m2 = Model.from_json(js)
    except Exception as e:
        rec.violation("%s/from_json-raises/%s" % (fam, exc_bucket(e) or type(e).__name__), c, "%s: %s" % (type(e).__name__, short(e, 200)))
        rec.case(c, False, cls)
        return
    # 2. re-serialisation
    try:
        js2 = m2.to_json()
        if json.loads(js2) != json.loads(js):  # same document (key order / 12 vs 12.0 are not semantic)
            d1, d2 = json.loads(js), json.loads(js2)
            diff = [k for k in set(_flat(d1)) | set(_flat(d2)) if _flat(d1).get(k) != _flat(d2).get(k)]
            rec.violation(fam + "/reserialise-differs", c, "from_json(js).to_json() != js; differing keys: %s" % sorted(diff)[:6])
    except Exception as e:
        rec.violation("%s/reserialise-raises/%s" % (fam, exc_bucket(e) or type(e).__name__), c, "%s: %s" % (type(e).__name__, short(e, 200)))
    try:
        d = m.to_dict()
        d2 = Model.from_dict(copy.deepcopy(d)).to_dict()
        if json.loads(json.dumps(d2, default=str)) != json.loads(json.dumps(d, default=str)):
            rec.violation(fam + "/from_dict-to_dict-differs", c, "from_dict(to_dict()).to_dict() differs from to_dict()")
    except Exception as e:
        rec.violation("%s/dict-roundtrip-raises/%s" % (fam, exc_bucket(e) or type(e).__name__), c, "%s: %s" % (type(e).__name__, short(e, 200)))
    # a stored document is loaded more than once in real use (one dict object, many loads): every load gives the same model
    try:
        d = m.to_dict()
        loads = [Model.from_dict(d), Model.from_dict(d)]
        for nm, mm in zip(("first", "second"), loads):
            if json.loads(mm.to_json()) != json.loads(js):
                rec.violation(fam + "/repeated-load-differs", c, "%s from_dict() of one to_dict() document does not serialise to the stored document" % nm)
        if b.get("noise_seed", 0) % 2:
            m2 = loads[1]  # the predictions below are then judged on the second load
            cls.append("predicts-with=second-load-of-one-dict")
    except Exception as e:
        rec.violation("%s/repeated-load-raises/%s" % (fam, exc_bucket(e) or type(e).__name__), c, "%s: %s" % (type(e).__name__, short(e, 200)))
    # 3. timezone, warnings, disqualification
    if fam != "caltrack":
        if str(m2.baseline_timezone) != str(m.baseline_timezone):
            rec.violation(fam + "/timezone-lost", c, "%r -> %r" % (str(m.baseline_timezone), str(m2.baseline_timezone)))
        if wtriples(m2.warnings) != wtriples(m.warnings):
            rec.violation(fam + "/warnings-differ", c, "%s -> %s" % (wtriples(m.warnings)[:3], wtriples(m2.warnings)[:3]))
        if wtriples(m2.disqualification) != wtriples(m.disqualification):
            rec.violation(fam + "/disqualification-differs", c, "%s -> %s" % (wtriples(m.disqualification)[:3], wtriples(m2.disqualification)[:3]))
    # 1. predictions (other, unrelated model objects exist in every real process: build some with other calendar maps first)
    if fam in ("daily", "billing"):
        zoo.decoys(fam)
    doc = json.loads(js)
    outside = False
    sloped = True
    if fam in ("daily", "billing"):
        sloped = any(sm["coefficients"]["model_type"] != "tidd" for sm in doc["submodels"].values())
    sets = [("baseline", data)] + [("r%d" % i, zoo.build_reporting(b, r)) for i, r in enumerate(c["reporting"])]
    # the same reporting period stamped in another name of the baseline's zone (US/Central for America/Chicago ...): whatever the
    # original model does with it - predict or refuse - the stored model does too
    alias = ALIASES.get(b["tz"])
    if alias and fam != "caltrack":
        try:
            sets.append(("alias-zone", zoo.build_reporting(dict(b, tz=alias), c["reporting"][0])))
        except Exception as e:
            rec.note("alias-zone-data-raises:" + type(e).__name__)
    Tb = data.df["temperature"]
    lo, hi = float(Tb.min()), float(Tb.max())
    for name, rep in sets:
        try:
            p1 = zoo.predict(m, b, rep)
        except Exception as e:
            rec.note("original-predict-raises:" + type(e).__name__)
            try:
                zoo.predict(m2, b, rep)
                rec.violation("%s/reloaded-predicts-where-original-refuses" % fam, c, "original raises %s on %s, the reloaded model returns a frame" % (type(e).__name__, name))
            except Exception as e2:
                if type(e2) is not type(e):
                    rec.violation("%s/reloaded-refuses-differently" % fam, c, "original raises %s on %s, the reloaded model %s" % (type(e).__name__, name, type(e2).__name__))
            continue
        try:
            p2 = zoo.predict(m2, b, rep)
        except Exception as e:
            rec.violation("%s/reloaded-predict-raises/%s" % (fam, exc_bucket(e) or type(e).__name__), c, "%s: %s" % (type(e).__name__, short(e, 200)))
            continue
        d = zoo.frame_bits_equal(p1, p2)
        if d:
            rec.violation("%s/prediction-differs" % fam, c, "%s on %s" % (d, name))
        Tr = rep.df["temperature"]
        if float(Tr.min()) < lo - 1 or float(Tr.max()) > hi + 1:
            outside = True
        if fam in ("daily", "billing") and len(p2):
            check_formula(doc, p2, fam, c, rec)
    rec.case(c, bool(sloped and outside), cls)


def _flat(d, pre=""):
    out = {}
    if isinstance(d, dict):
        for k, v in d.items():
            out.update(_flat(v, pre + str(k) + "."))
    elif isinstance(d, list):
        for i, v in enumerate(d):
            out.update(_flat(v, pre + str(i) + "."))
    else:
        out[pre[:-1]] = d
    return out


# ------------------------------------------------------------------ parameter documents
@st.composite
def doc_cases(draw):
    c = draw(gp.doc_case(families=("daily", "billing", "legacy")))
    c["kind"] = "docs"
    if draw(st.integers(0, 3)) == 0:
        c["dq"] = [{"qualified_name": "eemeter.sufficiency_criteria.too_many_days_with_missing_data", "description": "x",
                    "data": {"n_valid_days": 5, "n_days_total": 9}}]
    if draw(st.integers(0, 3)) == 0:
        c["warns"] = [{"qualified_name": "eemeter.sufficiency_criteria.extreme_values_detected", "description": "y", "data": {"a": 1.5}}]
    return c


def judge_docs(c, rec):
    from opendsm import eemeter as em

    fam = c["family"]
    case = dict(c)
    if fam == "legacy":
        case["family"] = "legacy"
    doc = gp.make_doc(fam, copy.deepcopy(c["submodels"]), c["season"], c["weekday"], c["tz"], c.get("dq", ()), c.get("warns", ()))
    Model = em.BillingModel if fam == "billing" else em.DailyModel
    key = "docs/" + fam
    m = Model.from_dict(copy.deepcopy(doc))
    cls = ["sub=docs", "family=" + fam, "ncomp=%d" % min(len(c["submodels"]), 3)]
    js = m.to_json()
    if json.loads(js) != json.loads(json.dumps(doc)):
        a, b = _flat(json.loads(json.dumps(doc))), _flat(json.loads(js))
        diff = sorted(k for k in set(a) | set(b) if a.get(k) != b.get(k))
        rec.violation(key + "/document-changed", c, "from_dict(doc).to_json() differs from doc at %s" % diff[:5])
    m2 = Model.from_json(js)
    if json.loads(m2.to_json()) != json.loads(js):
        rec.violation(key + "/reserialise-differs", c, "second round trip changes the document")
    if str(m2.baseline_timezone) != c["tz"]:
        rec.violation(key + "/timezone-lost", c, "%r" % m2.baseline_timezone)
    if wtriples(m2.disqualification) != wtriples(c.get("dq", ())) or wtriples(m2.warnings) != wtriples(c.get("warns", ())):
        rec.violation(key + "/warnings-lost", c, "warnings/disqualification of the document not restored")
    zoo.decoys("billing" if fam == "billing" else "daily")  # unrelated model objects with other calendar maps
    T = gp.sweep_temperatures(c, step=2.0)
    idx = pd.date_range("2019-01-01", periods=len(T), freq="D", tz=c["tz"])
    rng = np.random.default_rng(len(T))
    Tp = T[rng.permutation(len(T))]  # every calendar cell sees the whole sweep
    frame = pd.DataFrame({"temperature": Tp}, index=idx)
    Rep = em.BillingReportingData if fam == "billing" else em.DailyReportingData
    rep = Rep(frame, is_electricity_data=True)
    kw = {"ignore_disqualification": True}
    p1 = m.predict(rep, **kw)
    p2 = m2.predict(rep, **kw)
    d = zoo.frame_bits_equal(p1, p2)
    if d:
        rec.violation(key + "/prediction-differs", c, d)
    res = check_formula(json.loads(js), p2, key, c, rec)
    sloped = any(sm["coefficients"]["model_type"] != "tidd" for sm in c["submodels"].values())
    rec.case(c, bool(sloped and res != "inadmissible"), cls + ["formula=" + str(res)])


JUDGES = {"fitted": judge_fitted, "docs": judge_docs}


def judge(c, rec):
    JUDGES[c["kind"]](c, rec)


def _split(items, k):
    return [items[i::k] for i in range(k) if items[i::k]]


def shards(tier, seed):
    q = tier == "quick"
    out = []
    for i in range(4):
        out.append({"sub": "docs", "n": 120 if q else 2500, "seed": mix(seed, ID, "docs", i)})
    # every constructor profile is fitted at least once in each tier
    for i, profs in enumerate(_split(list(zoo.DAILY_PROFILES), 4)):
        out.append({"sub": "daily", "profiles": profs, "per": 1 if q else 10, "seed": mix(seed, ID, "daily", i)})
    for i, profs in enumerate(_split(list(zoo.BILLING_PROFILES), 2)):
        out.append({"sub": "billing", "profiles": profs, "per": 2 if q else 20, "seed": mix(seed, ID, "billing", i)})
    for i, profs in enumerate(_split(list(zoo.HOURLY_PROFILES), 5)):
        out.append({"sub": "hourly", "profiles": profs, "per": 1 if q else 8, "seed": mix(seed, ID, "hourly", i)})
    out.append({"sub": "caltrack", "profiles": ["caltrack"], "per": 2 if q else 12, "seed": mix(seed, ID, "caltrack")})
    return out


def run_shard(spec, rec):
    if spec["sub"] == "docs":
        explore(doc_cases(), judge, rec, max_examples=spec["n"], seed=spec["seed"], shrink=True)
        return
    for j, prof in enumerate(spec["profiles"]):
        explore(fitted_cases(family=spec["sub"], profiles=[prof]), judge, rec, max_examples=spec["per"], seed=mix(spec["seed"], prof), shrink=False)


def replay(case, rec):
    judge(case, rec)
