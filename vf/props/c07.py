"""C07 — observed and predicted usage are masked together so savings sums are unbiased."""
import math

import numpy as np
import pandas as pd
from hypothesis import strategies as st

from ..gen import params as gp
from ..gen import synth
from ..hyp import explore, mix

ID = "C07"
WARM = ["daily"]
RULE = (
    "Cases: a parameter-built daily or billing model (random shape, split layout, calendar maps) x a reporting frame carrying "
    "usage with generated patterns of missing temperature (single days, blocks, +-inf) and missing usage (single days, "
    "blocks; whole-frame patterns: no temperature at all, temperature exactly where usage is absent), daily-frequency input or billing reads, 7 zones; billing models additionally under monthly and bimonthly "
    "aggregation. Oracle: row by row isfinite(predicted) == isfinite(observed); a row whose input temperature is missing has "
    "neither; sum(predicted) - sum(observed) == sum(predicted - observed); aggregated period totals equal the masked daily "
    "totals, period by period (each aggregated row pairs the predicted and observed totals of the same calendar period). Non-trivial: at least one row with temperature missing and usage present AND at least one row with usage "
    "missing and temperature present. Distinct = distinct case descriptions."
)
ASSUMPTIONS = [
    "usage was supplied (the property only speaks of reporting data that carried usage)",
    "the daily-resolution frame is the one returned by predict() (aggregation None for billing)",
]
ZONES = ["UTC", "America/Chicago", "America/Los_Angeles", "Europe/London", "Australia/Sydney", "Asia/Tokyo", "Asia/Kolkata"]


@st.composite
def cases(draw):
    c = {"kind": "mask"}
    fam = draw(st.sampled_from(["daily", "daily", "billing"]))
    c["model"] = draw(gp.doc_case(families=(fam,)))
    c["model"]["tz"] = draw(st.sampled_from(ZONES))
    c["input"] = "daily" if fam == "daily" else draw(st.sampled_from(["daily", "reads"]))
    c["start_day"] = draw(st.integers(0, 900))
    c["n"] = draw(st.one_of(st.integers(5, 60), st.integers(60, 400)))
    c["noise_seed"] = draw(st.integers(0, 2 ** 20))
    c["nan_T"] = draw(st.lists(st.integers(0, 399), max_size=8))
    c["inf_T"] = draw(st.lists(st.tuples(st.integers(0, 399), st.booleans()), max_size=2))
    c["sentinel_T"] = draw(st.lists(st.tuples(st.integers(0, 399), st.sampled_from([-9999.0, 9999.0, -999.0, 999.9, 1e6])), max_size=2))  # finite "missing" codes of weather feeds
    c["nan_T_block"] = draw(st.one_of(st.none(), st.tuples(st.integers(0, 380), st.integers(2, 40))))
    c["nan_obs"] = draw(st.lists(st.integers(0, 399), max_size=8))
    c["nan_obs_block"] = draw(st.one_of(st.none(), st.tuples(st.integers(0, 380), st.integers(2, 40))))
    # whole-frame patterns: no temperature at all, or temperature exactly where usage is absent (no complete day anywhere)
    c["pattern"] = draw(st.sampled_from([None, None, None, None, "no_temperature", "complementary", "complementary_blocks", "first_month_no_T", "first_month_no_T"]))
    # coarse instruments: whole degrees / whole kWh, or 5-degree and 10-kWh steps - many days then carry identical values
    c["coarse"] = draw(st.sampled_from([None, None, "whole", "steps", "steps"]))
    # a frame shared with the hourly pipeline carries an irradiance column (with its own gaps) that the daily classes do not use
    c["extra_ghi"] = draw(st.sampled_from([None, None, None, "gaps", "complete"]))
    if c["input"] == "reads":
        c["lengths"] = draw(st.lists(st.integers(26, 34), min_size=2, max_size=13))
        c["nan_reads"] = draw(st.lists(st.integers(0, 12), max_size=2))
    return c


def build(c):
    from opendsm import eemeter as em

    tz = c["model"]["tz"]
    fam = c["model"]["family"]
    if c["input"] == "reads":
        reads = synth.billing_calendar(c["start_day"], c["lengths"], tz)
        n = int(sum(c["lengths"])) + 1
    else:
        n = c["n"]
    idx = synth.local_midnights(c["start_day"], n, tz)
    rng = np.random.default_rng(c["noise_seed"])
    T = synth.daily_temperature(idx, {}, rng)
    if c.get("coarse") == "whole":
        T = np.round(T)
    elif c.get("coarse") == "steps":
        T = np.round(T / 5.0) * 5.0
    for k in c["nan_T"]:
        if k < n:
            T[k] = np.nan
    for k, pos in c["inf_T"]:
        if k < n:
            T[k] = np.inf if pos else -np.inf
    if c["nan_T_block"]:
        a, ln = c["nan_T_block"]
        T[a: a + ln] = np.nan
    for k, v in c.get("sentinel_T", ()):
        if k < n:
            T[k] = v  # a finite temperature: the day keeps both its usage and its (absurd) prediction
    df = pd.DataFrame({"temperature": T}, index=idx)
    if c["input"] == "reads":
        obs = pd.Series(np.nan, index=idx)
        vals = np.round(rng.uniform(200, 2000, len(reads) - 1))
        for k in c["nan_reads"]:
            if k < len(vals):
                vals[k] = np.nan
        obs[reads[:-1]] = vals
        df["observed"] = obs
    else:
        o = np.round(rng.uniform(5, 60, n))
        if c.get("coarse") == "steps":
            o = np.round(o / 10.0) * 10.0 + 10.0
        for k in c["nan_obs"]:
            if k < n:
                o[k] = np.nan
        if c["nan_obs_block"]:
            a, ln = c["nan_obs_block"]
            o[a: a + ln] = np.nan
        df["observed"] = o
    pat = c.get("pattern")
    if pat == "no_temperature":
        df["temperature"] = np.nan
    elif pat in ("complementary", "complementary_blocks") and c["input"] == "daily":
        k = np.arange(n)
        sel = (k % 2 == 0) if pat == "complementary" else ((k // 9) % 2 == 0)
        df.loc[df.index[sel], "temperature"] = np.nan
        df.loc[df.index[~sel], "observed"] = np.nan
    elif pat == "first_month_no_T":
        # a weather outage over the whole first calendar month (or weather that starts later than the bills)
        first = (df.index.year == df.index[0].year) & (df.index.month == df.index[0].month)
        df.loc[df.index[first], "temperature"] = np.nan
    if c.get("extra_ghi"):
        g = np.round(rng.uniform(0, 300, len(df)), 1)
        if c["extra_ghi"] == "gaps":
            g[rng.random(len(df)) < 0.15] = np.nan
        df["ghi"] = g
    cls = em.BillingReportingData if fam == "billing" else em.DailyReportingData
    return cls(df, is_electricity_data=True), df


def judge(c, rec):
    m, doc = gp.build_model(c["model"])
    fam = c["model"]["family"]
    try:
        data, raw = build(c)
    except ValueError as e:
        if "Billing data is not allowed" not in str(e):
            raise
        # a short span with holes is read as billing data by the daily class: acceptance is C10's subject
        rec.note("data-class-rejects-short-span-with-holes")
        rec.case(c, False, ["family=" + fam, "input-rejected"])
        return
    out = m.predict(data)
    cls = ["family=" + fam, "input=" + c["input"], "pattern=" + str(c.get("pattern")), "coarse=" + str(c.get("coarse")), "extra-ghi-column=" + str(c.get("extra_ghi"))]
    if "observed" not in out or len(out) == 0:
        rec.case(c, False, cls + ["no-usage-or-empty"])
        return
    P = np.isfinite(out["predicted"].values.astype(float))
    O = np.isfinite(out["observed"].values.astype(float))
    Tin = data.df["temperature"].reindex(out.index).values.astype(float)
    Tmiss = ~np.isfinite(Tin)
    key = fam
    if (P & ~O).any():
        i = int(np.nonzero(P & ~O)[0][0])
        rec.violation(key + "/predicted-without-observed", c, "%s: predicted %r, observed missing" % (out.index[i].date(), out["predicted"].iloc[i]))
    if (O & ~P).any():
        i = int(np.nonzero(O & ~P)[0][0])
        why = "temperature missing" if Tmiss[i] else "temperature present"
        rec.violation(key + "/observed-without-predicted" + ("/temperature-missing" if Tmiss[i] else ""), c,
                      "%s: observed %r kept although there is no prediction (%s)" % (out.index[i].date(), out["observed"].iloc[i], why))
    if (Tmiss & (P | O)).any():
        i = int(np.nonzero(Tmiss & (P | O))[0][0])
        rec.violation(key + "/value-on-temperature-less-day", c, "%s has no temperature but predicted=%r observed=%r" % (
            out.index[i].date(), out["predicted"].iloc[i], out["observed"].iloc[i]))
    # the documented savings computation
    sp = float(np.nansum(out["predicted"].values.astype(float)))
    so = float(np.nansum(out["observed"].values.astype(float)))
    both = P & O
    row = math.fsum((out["predicted"].values.astype(float) - out["observed"].values.astype(float))[both])
    scale = (abs(sp) + abs(so) + 1.0)
    if abs((sp - so) - row) > 1e-9 * scale:
        rec.violation(key + "/column-sums-differ-from-rowwise", c, "sum(predicted)-sum(observed)=%r, row-wise savings=%r" % (sp - so, row))
    if fam == "billing":
        pv = out["predicted"].values.astype(float)
        ov = out["observed"].values.astype(float)
        for agg in ("monthly", "bimonthly"):
            a = m.predict(data, aggregation=agg)
            if "observed" not in a:
                continue
            ap = float(np.nansum(a["predicted"].values.astype(float)))
            ao = float(np.nansum(a["observed"].values.astype(float)))
            mp = math.fsum(pv[both])
            mo = math.fsum(ov[both])
            if abs(ap - mp) > 1e-9 * scale or abs(ao - mo) > 1e-9 * scale:
                rec.violation(key + "/aggregated-totals-not-masked/" + agg, c,
                              "aggregated predicted/observed totals %r/%r, masked daily totals %r/%r" % (ap, ao, mp, mo))
            # period by period: each aggregated row pairs the predicted and the observed total of the same calendar period
            from .c19 import ref_aggregate

            masked = out.copy()
            masked.loc[~both, ["predicted", "observed"]] = np.nan
            for row in ref_aggregate(masked, 1 if agg == "monthly" else 2, c["model"]["tz"]):
                st_ = row["stamp"]
                gp_ = float(a["predicted"].get(st_, np.nan)) if st_ in a.index else 0.0
                go_ = float(a["observed"].get(st_, np.nan)) if st_ in a.index else 0.0
                gp_, go_ = (0.0 if np.isnan(gp_) else gp_), (0.0 if np.isnan(go_) else go_)
                if abs(gp_ - row["predicted"][0]) > 1e-9 * scale or abs(go_ - row["observed"][0]) > 1e-9 * scale:
                    rec.violation(key + "/aggregated-period-mispaired/" + agg, c, "period %s: aggregated predicted/observed %r/%r, the period's masked daily rows give %r/%r" % (
                        st_.date(), gp_, go_, row["predicted"][0], row["observed"][0]))
                    break
    # rows whose input had usage but no temperature, and the other way round
    Oin = np.isfinite(data.df["observed"].reindex(out.index).values.astype(float)) if "observed" in data.df else np.zeros(len(out), bool)
    nt = (Tmiss & Oin).any() and (~Tmiss & ~Oin).any()
    rec.case(c, bool(nt), cls + ["T-missing-usage-present=%d" % int((Tmiss & Oin).any()), "usage-missing-T-present=%d" % int((~Tmiss & ~Oin).any())])


def shards(tier, seed):
    per = 120 if tier == "quick" else 2500
    return [{"i": i, "n": per, "seed": mix(seed, ID, i)} for i in range(16)]


def run_shard(spec, rec):
    explore(cases(), judge, rec, max_examples=spec["n"], seed=spec["seed"], shrink=True)


def replay(case, rec):
    judge(case, rec)
