"""C09 — daily temperature is the local-day mean of the hourly temperatures."""
import contextlib
import io
import math

import numpy as np
import pandas as pd
from hypothesis import strategies as st

from ..gen import synth
from ..hyp import explore, mix

ID = "C09"
WARM = []
RULE = (
    "Cases: a daily or billing meter index at local midnight (or another fixed read hour) x an hourly or half-hourly "
    "temperature feed expressed in the meter's zone, in UTC or in another zone whose offset is a whole number of sampling "
    "intervals away x integer temperatures x NaN patterns (none at all over 250-368 days; random cells, blocks, exactly half a day, half +- 1 reading, a whole "
    "day; blocks aimed at the 23/25-hour day) x spans containing DST days x frame (merged), from_series, or temperature-only reporting "
    "data (meter None, zone given as tzinfo) entry point. Oracle: data.df.temperature[d] is the mean "
    "of the present readings with d <= t < d + 1 meter day, missing when present/total <= 0.5; with the verification hook the "
    "per-day present/absent counts equal the reference counts. Non-trivial: at least one day with 0 < missing < 50% and at "
    "least one day with >= 50% missing, or a complete feed over most of a year with a clock change inside (one case in six). Distinct = distinct case descriptions."
)
ASSUMPTIONS = [
    "class (iii) of DESIGN.md (meter finer than the feed) is outside the statement's quantifier (daily/billing meter days) and not generated",
    "the feed covers every meter day completely (leading/trailing NaN trimming by from_series is a different subject)",
    "billing meters are given as a merged frame (reads at period starts + sub-daily temperature rows), the convention of the repository's tests; billing from_series with a sub-daily feed is not judged",
    "tolerance 1e-9 relative on integer temperatures",
]
ZONES = ["America/Chicago", "America/New_York", "America/Los_Angeles", "Europe/London", "Europe/Berlin", "Australia/Sydney", "Asia/Tokyo",
         "UTC", "Asia/Kolkata"]
DST_DATES = {"America/Chicago": ["2018-03-11", "2018-11-04"], "America/New_York": ["2018-03-11", "2018-11-04"],
             "America/Los_Angeles": ["2018-03-11", "2018-11-04"], "Europe/London": ["2018-03-25", "2018-10-28"],
             "Europe/Berlin": ["2018-03-25", "2018-10-28"], "Australia/Sydney": ["2018-04-01", "2018-10-07"]}


@st.composite
def cases(draw):
    tz = draw(st.sampled_from(ZONES))
    c = {"kind": "temp", "tz": tz, "family": draw(st.sampled_from(["daily", "daily", "billing"])),
         "step": draw(st.sampled_from([60, 60, 30])), "nd": draw(st.one_of(st.integers(4, 14), st.integers(14, 70))),
         "feed_tz": draw(st.sampled_from(["same", "UTC", "Asia/Tokyo", "Europe/Berlin"])),
         "entry": draw(st.sampled_from(["from_series", "from_series", "frame"])),
         "read_hour": draw(st.sampled_from([0, 0, 0, 7, 13])), "vseed": draw(st.integers(0, 2 ** 20))}
    dst_day = None
    if tz in DST_DATES and draw(st.booleans()):
        dst_day = draw(st.integers(0, c["nd"] - 2))
        c["d0"] = str((pd.Timestamp(draw(st.sampled_from(DST_DATES[tz]))) - pd.Timedelta(days=dst_day)).date())
    else:
        c["d0"] = str((pd.Timestamp("2018-01-01") + pd.Timedelta(days=draw(st.integers(0, 400)))).date())
    per_day = 24 * 60 // c["step"]
    c["blocks"] = draw(st.lists(st.tuples(st.integers(0, c["nd"] - 1), st.integers(0, per_day - 1),
                                          st.sampled_from([1, 2, 3, per_day // 4, per_day // 2 - 1, per_day // 2, per_day // 2 + 1, per_day - 1, per_day, per_day + 5])),
                                max_size=5))
    if dst_day is not None and draw(st.booleans()):
        # aim at the 23/25-hour day: present readings just below / at / above half of that day and of an ordinary day
        c["blocks"].append((dst_day, draw(st.integers(0, per_day // 2 - 3)), draw(st.sampled_from([per_day // 2 - 2, per_day // 2 - 1, per_day // 2, per_day // 2 + 1]))))
    c["cells"] = draw(st.lists(st.integers(0, c["nd"] * per_day - 1), max_size=10))
    c["zero_days"] = draw(st.lists(st.integers(0, c["nd"] - 1), max_size=3))  # electric meter days reading exactly 0 (usage missing, temperature not)
    if draw(st.integers(0, 5)) == 0:
        # a complete feed (not one reading missing) over most of a year: both clock changes of the zone lie inside
        c["nd"] = draw(st.integers(250, 368))
        c["d0"] = str((pd.Timestamp("2018-01-01") + pd.Timedelta(days=draw(st.integers(0, 55)))).date())
        c["blocks"], c["cells"], c["complete_year"] = [], [], True
    # the daily class also takes interval-meter readings (hourly usage next to the hourly feed): some meter days are then only partly
    # read (10 or 20 of 24 hours) - the day stays a day of the frame and its temperature is still the mean of that day's readings
    c["meter_res"] = "daily"
    if c["family"] == "daily" and c["read_hour"] == 0 and c["step"] == 60 and draw(st.integers(0, 3)) == 0:
        c["meter_res"] = "hourly"
        c["meter_partial"] = draw(st.lists(st.tuples(st.integers(1, max(c["nd"] - 2, 1)), st.sampled_from([10, 12, 20])), max_size=3))
    if c["family"] == "billing":
        c["read_hour"] = 0
        c["nd"] = 30 * (draw(st.integers(2, 3)) if not c.get("complete_year") else draw(st.integers(9, 12)))  # whole 30-day periods
        c["entry"] = "frame"  # the merged-frame convention of the repository's own billing tests
    elif c["read_hour"] == 0 and draw(st.integers(0, 4)) == 0:
        # temperature-only reporting data: no meter, the local zone is given as tzinfo
        c["entry"] = "reporting_T_only"
        c["elec_flag"] = draw(st.sampled_from([None, True, False]))
    return c


def meter_days(c):
    naive = pd.date_range(c["d0"], periods=c["nd"] + 1, freq="D") + pd.Timedelta(hours=c["read_hour"])
    return naive.tz_localize(c["tz"], nonexistent="shift_forward", ambiguous=True)


def build(c):
    days = meter_days(c)
    tidx = pd.date_range(days[0].tz_convert("UTC"), days[-1].tz_convert("UTC"), freq="%dmin" % c["step"], inclusive="left")
    rng = np.random.default_rng(c["vseed"])
    T = pd.Series(rng.integers(0, 100, len(tidx)).astype(float), index=tidx)
    per_day = 24 * 60 // c["step"]
    for day, slot, ln in c["blocks"]:
        a = int(tidx.get_indexer([days[min(day, len(days) - 2)].tz_convert("UTC")])[0]) + slot
        T.iloc[a:a + ln] = np.nan
    for i in c["cells"]:
        if i < len(T):
            T.iloc[i] = np.nan
    # the statement's domain: every meter day is covered; keep the first and last reading present
    T.iloc[0] = 50.0
    T.iloc[-1] = 50.0
    feed = T.tz_convert(c["tz"] if c["feed_tz"] == "same" else c["feed_tz"])
    return days, T, feed


def judge(c, rec):
    from opendsm import eemeter as em

    days, T, feed = build(c)
    tz = c["tz"]
    rng = np.random.default_rng(c["vseed"] + 1)
    mdays = days[:-1]
    cls = ["family=" + c["family"], "step=%d" % c["step"], "feed=" + c["feed_tz"], "entry=" + c["entry"], "read_hour=%d" % c["read_hour"], "complete-year=%d" % bool(c.get("complete_year")), "meter=" + c.get("meter_res", "daily")]
    if c["family"] == "daily":
        meter = pd.Series(rng.integers(1, 100, len(mdays)).astype(float), index=mdays, name="observed")
        for k in c.get("zero_days", ()):
            if 0 < k < len(meter) - 1:
                meter.iloc[k] = 0.0
        if c.get("meter_res") == "hourly" and c["entry"] != "reporting_T_only":
            hidx = T.index.tz_convert(tz)
            day_of = np.clip(np.searchsorted(days.asi8, hidx.asi8, side="right") - 1, 0, len(mdays) - 1)
            hm = pd.Series(meter.values[day_of] / 24.0 + 1.0, index=hidx, name="observed")
            for k, keep in c.get("meter_partial", ()):
                rows = np.nonzero(day_of == min(k, len(mdays) - 1))[0]
                hm.iloc[rows[keep:]] = np.nan
            meter = hm
        Cls = em.DailyBaselineData
    else:
        obs = pd.Series(np.nan, index=days)
        reads = list(range(0, len(days) - 1, 30))
        assert (len(days) - 1) % 30 == 0
        for r in reads:
            obs.iloc[r] = 900.0
        meter = obs.rename("observed")
        Cls = em.BillingBaselineData
    try:
      with contextlib.redirect_stdout(io.StringIO()):
          if c["entry"] == "reporting_T_only":
              import pytz

              data = em.DailyReportingData.from_series(None, feed.rename("temperature"), is_electricity_data=c.get("elec_flag"), tzinfo=pytz.timezone(tz))
          elif c["entry"] == "from_series":
              if c["family"] == "billing":
                  meter_in = meter.dropna()
                  meter_in[days[-1]] = np.nan
              else:
                  meter_in = meter
              data = Cls.from_series(meter_in, feed.rename("temperature"), is_electricity_data=True)
          else:
              # merged frame: meter values on their own stamps, temperature on the feed's stamps
              m = meter if c["family"] == "daily" else meter.iloc[:-1]
              df = pd.concat([m, feed.tz_convert(tz).rename("temperature")], axis=1)
              data = Cls(df, is_electricity_data=True)
    except ValueError as e:
        if "Billing data is not allowed" not in str(e):
            raise
        # a short span whose zero-usage (missing) days make the spacing look like bills: acceptance is C10's subject
        rec.note("data-class-rejects-short-span-with-holes")
        rec.case(c, False, cls + ["input-rejected"])
        return
    out = data.df
    hook = getattr(data, "_verif_sufficiency_df", None)
    key = "%s/feed=%dmin/read_hour=%d" % (c["family"], c["step"], c["read_hour"])
    partial = low = False
    judged = 0
    for k in range(len(mdays)):
        a, b = days[k], days[k + 1]
        seg = T[(T.index >= a.tz_convert("UTC")) & (T.index < b.tz_convert("UTC"))]
        tot = len(seg)
        pres = seg.dropna()
        frac = len(pres) / tot if tot else 0.0
        exp = float("nan") if frac <= 0.5 else float(pres.mean())
        partial = partial or (0.5 < frac < 1)
        low = low or (frac <= 0.5)
        if a not in out.index:
            rec.violation(key + "/day-missing", c, "meter day %s is not a row of the data frame" % a)
            break
        g = float(out.loc[a, "temperature"])
        last = k == len(mdays) - 1
        # the previous meter day is a 23/25-hour day: from_series measures the last meter period in elapsed time
        after_dst = (last and k > 0 and c["entry"] in ("from_series", "reporting_T_only")
                     and ((days[k] - days[k - 1]) != pd.Timedelta(days=1) or (days[k + 1] - days[k]) != pd.Timedelta(days=1)))
        kind = "full" if frac == 1 else ("partial" if frac > 0.5 else "low")
        dst_day = (b - a) != pd.Timedelta(days=1)
        # billing compares with the median day: a 23-hour day with exactly 12 readings present
        half_of_median = c["family"] == "billing" and dst_day and len(pres) * 2 == 24 * (60 // c["step"])
        if math.isnan(exp) != math.isnan(g) or (not math.isnan(exp) and abs(g - exp) > 1e-9 * max(1.0, abs(exp))):
            if rec.violation("%s/%s-day%s%s%s" % (key, kind, "/last-day" if last else "", "/after-dst" if after_dst else "",
                                                   "/dst-day-half-of-median" if half_of_median else ""), c,
                             "%s: %d of %d readings present, data frame has %r, mean of the present readings is %r" % (a, len(pres), tot, g, exp)):
                break
            continue  # a listed finding: keep judging the other days
        if hook is not None and a in hook.index and "temperature_not_null" in hook.columns:
            nn, nu = hook.loc[a, "temperature_not_null"], hook.loc[a, "temperature_null"]
            if not (pd.isna(nn) or pd.isna(nu)) and (int(nn), int(nu)) != (len(pres), tot - len(pres)) and c["step"] == 60:
                rec.violation(key + "/coverage-counts" + ("/last-day" if last else "") + ("/after-dst" if after_dst else ""), c, "%s: counts present/absent %d/%d, reference %d/%d" % (a, int(nn), int(nu), len(pres), tot - len(pres)))
                break
        judged += 1
    dst = len(set(t.utcoffset() for t in days)) > 1
    rec.note("days_judged", judged)
    rec.case(c, bool((partial and low) or (c.get("complete_year") and dst)), cls + ["dst=%d" % dst, "partial=%d" % partial, "low=%d" % low, "hook=%d" % (hook is not None)])


def shards(tier, seed):
    per = 50 if tier == "quick" else 700
    return [{"i": i, "n": per, "seed": mix(seed, ID, i)} for i in range(16)]


def run_shard(spec, rec):
    explore(cases(), judge, rec, max_examples=spec["n"], seed=spec["seed"], shrink=True)


def replay(case, rec):
    judge(case, rec)
