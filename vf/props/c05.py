"""C05 — the counterfactual never depends on reporting-period consumption."""
import contextlib
import io

import numpy as np
import pandas as pd
from hypothesis import strategies as st

from ..core import exc_bucket, short
from ..gen import zoo
from ..hyp import explore, mix

ID = "C05"
WARM = ["daily", "hourly"]
RULE = (
    "Cases: a model of each family (daily legacy/current profiles, billing, hourly solar and non-solar profiles, CalTRACK hourly) "
    "fitted on a full-year baseline (every month and weekday present, by construction) x a reporting set (1 day .. 1 year, "
    "hourly spans may contain 23/25-hour days) x an alteration of its observed column from {scaled by k, permuted, random cells "
    "NaN, a whole month NaN, all NaN, column absent, all zero, scattered zeros, sign flipped, +-inf cells, moved by three days, the first or the last days missing; "
    "hourly baselines may miss the same hour of the same weekday in every week; CalTRACK hourly also through from_series (meter series with NaN or without those rows; "
    "six fixed cases per run); daily family also as hourly meter "
    "readings + hourly weather through from_series with part of a day or a three-day outage blanked}, with up to three gaps in the "
    "reporting period's temperature / irradiance (identical in both runs, so filling them must not look at usage); in two cases of five the model "
    "has already produced an interim report over a shorter span and both runs start from copies of that used model. Oracle (metamorphic): the altered run "
    "does not raise if the original did not; both runs return the same timestamps; for every timestamp for which both runs produce a prediction the predicted value "
    "is bit-identical; hourly and CalTRACK runs produce a prediction on every row. Non-trivial: the alteration changes at least "
    "10% of the observed cells (hourly: and the reporting span is at least a week). Distinct = distinct case descriptions."
)
ASSUMPTIONS = [
    "daily/billing rows without usage legitimately carry no prediction (C07), so only rows predicted in both runs are compared",
    "electric zero usage is 'missing' by the data classes' convention",
    "a data class rejecting the altered frame (e.g. a 3-day span with a hole read as billing data) is counted, not judged here: acceptance is C10's subject",
]
ALTS = ["scale", "permute", "nan_cells", "nan_month", "all_nan", "absent", "zero", "zero_cells", "negate", "inf_cells", "constant", "shift_days",
        "nan_head", "nan_tail"]
SUB_ALTS = ["nan_day_partial", "outage3", "nan_day_partial", "outage3", "all_nan", "absent", "scale", "nan_cells", "zero_cells", "zero_night"]


def hourly_from_daily(df, c):
    """The same reporting period as hourly meter readings + an hourly weather feed (the daily class aggregates them); the feed
    may start at another hour than local midnight."""
    tz = df.index.tz
    h0 = c.get("feed_h0", 0)
    start = df.index[0].tz_convert("UTC") + pd.Timedelta(hours=h0)
    end = (df.index[-1] + pd.Timedelta(days=1)).tz_convert("UTC")
    hidx = pd.date_range(start, end, freq="h", inclusive="left").tz_convert(tz)
    day_of = np.clip(np.searchsorted(df.index.asi8, hidx.asi8, side="right") - 1, 0, len(df) - 1)
    hod = hidx.hour.values
    out = pd.DataFrame({"temperature": df["temperature"].values[day_of] + 4.0 * np.sin((hod - 9) / 24.0 * 2 * np.pi)}, index=hidx)
    counts = np.bincount(day_of, minlength=len(df)).astype(float)
    out["observed"] = (df["observed"].values / np.maximum(counts, 1))[day_of] * (1 + 0.3 * np.cos(hod / 24.0 * 2 * np.pi))
    return out


@st.composite
def cases(draw, family=None):
    b = draw(zoo.baseline(family=family, full_year=True, cheap=True))
    if b["family"] == "hourly" and draw(st.integers(0, 2)) == 0:
        b["weekly_gap"] = draw(st.sampled_from([[6, 3], [2, 14], [5, 0]]))
    r = draw(zoo.reporting(b))
    r["observed"] = True
    return {"kind": "alt", "baseline": b, "rep": r, "alt": draw(st.sampled_from(ALTS)), "k": draw(st.sampled_from([0.0, 0.5, 3.0, 1e6, -2.0])),
            "alt_seed": draw(st.integers(0, 2 ** 20)),
            # the model may have been used before (an interim report over a shorter span)
            "interim": draw(st.sampled_from([None, None, 7, 30, 90])),
            # gaps in the reporting period's weather (same in both runs): (column, position as a fraction, length in rows)
            "wx_gaps": draw(st.lists(st.tuples(st.sampled_from(["temperature", "ghi"]), st.floats(0, 0.95), st.integers(1, 40)), max_size=3)),
            # daily family only: the reporting period arrives as hourly meter readings + hourly weather through from_series
            "subdaily": draw(st.sampled_from([False, False, True])), "sub_alt": draw(st.sampled_from(SUB_ALTS)), "feed_h0": draw(st.sampled_from([0, 0, 19, 7])),
            # CalTRACK hourly only: the reporting period arrives as two series through from_series; the meter series then either
            # carries NaN where readings are missing or simply does not have those rows
            "series_entry": draw(st.booleans()), "meter_rows_absent": draw(st.booleans()),
            # some timestamps are delivered twice: first a stub (no usage yet, a provisional temperature), later the full record;
            # the first delivery counts, whatever its usage field holds
            "dups": draw(st.lists(st.integers(0, 10 ** 6), max_size=3)),
            # daily family, sub-daily input: as one DataFrame handed to the constructor instead of two series through from_series
            "sub_entry": draw(st.sampled_from(["from_series", "from_series", "frame"])),
            # the model in use is a stored model read back from JSON (each run starts from its own fresh load)
            "reloaded": draw(st.sampled_from([False, False, True]))}


def alter(df, c):
    rng = np.random.default_rng(c["alt_seed"])
    out = df.copy()
    o = out["observed"].values.astype(float).copy()
    a = c["alt"]
    n = len(o)
    if a == "scale":
        o = o * c["k"]
    elif a == "permute":
        o = o[rng.permutation(n)]
    elif a == "nan_cells":
        o[rng.random(n) < 0.3] = np.nan
    elif a == "nan_month":
        m = out.index.month == out.index.month[n // 2]
        o[m] = np.nan
    elif a == "all_nan":
        o[:] = np.nan
    elif a == "zero":
        o[:] = 0.0
    elif a == "zero_cells":
        o[rng.random(n) < 0.1] = 0.0
    elif a == "negate":
        o = -o
    elif a == "inf_cells":
        o[rng.random(n) < 0.1] = np.inf
    elif a == "constant":
        o[:] = 7.0
    elif a == "zero_night":
        # the meter reads exactly zero from midnight to 07:00 on every sixth night (a plant that shuts down): hours that are colder
        # than the day's mean
        hrs = out.index.hour.values
        dno = (out.index.tz_localize(None).normalize() - out.index[0].tz_localize(None).normalize()).days
        o[(hrs < 8) & (dno % 6 == 2)] = 0.0
    elif a == "shift_days":
        # the same readings three days later (another weekday pattern, same level)
        per = 24 if (n > 48 and (out.index[1] - out.index[0]) <= pd.Timedelta(hours=1)) else 1
        o = np.roll(o, 3 * per)
    elif a in ("nan_head", "nan_tail"):
        # the meter record starts later / stops earlier than the weather record
        k = max(1, min(n // 4, 24 * 4 if n > 48 else 3))
        if a == "nan_head":
            o[:k] = np.nan
        else:
            o[-k:] = np.nan
    elif a == "nan_day_partial":
        # 16 of the 24 readings of one interior day are lost (coverage 1/3: that day's usage is missing, nothing else changes)
        day = out.index.normalize().unique()[max(1, len(out.index.normalize().unique()) // 2)]
        rows = np.nonzero(out.index.normalize() == day)[0]
        o[rows[:16]] = np.nan
    elif a == "outage3":
        days = out.index.normalize().unique()
        k = max(1, len(days) // 3)
        sel = np.isin(out.index.normalize(), days[k:k + 3])
        o[sel] = np.nan
    if a == "absent":
        return out.drop(columns=["observed"])
    out["observed"] = o
    return out


def series_entry_wanted(c, fam):
    return (bool(c.get("series_entry")) and fam == "caltrack") or (bool(c.get("subdaily")) and fam == "daily" and c.get("sub_entry", "from_series") == "from_series")


def judge(c, rec):
    b = c["baseline"]
    fam = b["family"]
    m, _ = zoo.fitted(b)
    if c.get("interim"):
        try:
            zoo.predict(m, b, zoo.build_reporting(b, dict(c["rep"], n=c["interim"] if fam != "billing" else max(c["interim"], 35), start_day=c["rep"]["start_day"] - 100)))
        except Exception:
            pass
    if c.get("reloaded"):
        js = m.to_json()
        m, m_alt = zoo.model_class(fam).from_json(js), zoo.model_class(fam).from_json(js)
    else:
        m_alt = __import__("copy").deepcopy(m)  # both runs start from the same (possibly used) model
    df = zoo.reporting_frame(b, c["rep"])
    gaps = 0
    for col, pos, ln in c.get("wx_gaps", ()):
        if col in df.columns and len(df) > 6:
            a0 = int(pos * len(df))
            ln = min(ln, len(df) // 3)
            df.iloc[a0:a0 + ln, df.columns.get_loc(col)] = np.nan
            gaps += 1
    sub = bool(c.get("subdaily")) and fam == "daily" and len(df) >= 5
    if sub:
        df = hourly_from_daily(df, c)
        c = dict(c, alt=c["sub_alt"])
    df2 = alter(df, c)
    ndup = 0
    if c.get("dups") and not series_entry_wanted(c, fam) and len(df) > 4:
        def with_stubs(frame):
            parts = []
            for k in c["dups"]:
                i = 1 + k % (len(frame) - 2)
                stub = frame.iloc[[i]].copy()
                if "observed" in stub:
                    stub["observed"] = np.nan
                stub["temperature"] = frame["temperature"].iloc[i] + 9.0
                parts.append((i, stub))
            out = frame
            for i, stub in sorted(parts, key=lambda t: -t[0]):
                out = pd.concat([out.iloc[:i], stub, out.iloc[i:]])
            return out
        df, df2 = with_stubs(df), with_stubs(df2)
        ndup = len(c["dups"])
    cls = ["family=" + fam, "profile=" + b["profile"], "alt=" + c["alt"], "n=%d" % c["rep"]["n"], "used-model=%d" % bool(c.get("interim")), "reloaded-model=%d" % bool(c.get("reloaded")), "weather-gaps=%d" % min(gaps, 1)]
    series_entry = bool(c.get("series_entry")) and fam == "caltrack"

    def mk(frame):
        if series_entry:
            from opendsm import eemeter as em

            meter = frame["observed"] if "observed" in frame else None
            if meter is not None and c.get("meter_rows_absent") and meter.notna().any():
                meter = meter[meter.notna()]
            with contextlib.redirect_stdout(io.StringIO()):
                return em.HourlyCaltrackReportingData.from_series(meter, frame["temperature"], is_electricity_data=b.get("electric", True))
        if not sub:
            return zoo.build_reporting(b, c["rep"], frame=frame)
        from opendsm import eemeter as em

        with contextlib.redirect_stdout(io.StringIO()):
            if c.get("sub_entry") == "frame":
                return em.DailyReportingData(frame.copy(), is_electricity_data=b.get("electric", True))
            return em.DailyReportingData.from_series(frame["observed"] if "observed" in frame else None, frame["temperature"],
                                                     is_electricity_data=b.get("electric", True))

    cls = cls + ["entry=" + (("hourly-" + c.get("sub_entry", "from_series")) if sub else "caltrack-from_series" if series_entry else "frame"),
                 "stub-duplicates=%d" % min(ndup, 1),
                 "baseline-weekly-gap=%d" % bool(b.get("weekly_gap"))]
    try:
        rep1 = mk(df)
    except Exception as e:
        bkt = exc_bucket(e)
        if bkt is None or "Billing data is not allowed" not in str(e):
            raise
        # a one-week daily span with holes is read as billing data by the daily class: acceptance is C10's subject
        rec.note("original-data-rejected:" + bkt)
        rec.case(c, False, cls + ["original-data-rejected"])
        return
    try:
        p1 = zoo.predict(m, b, rep1)
    except Exception as e:
        bkt = exc_bucket(e)
        if bkt is None:
            raise
        rec.note("original-raises:" + bkt)
        rec.case(c, False, cls + ["original-raises"])
        return
    try:
        rep2 = mk(df2)
    except Exception as e:
        bkt = exc_bucket(e)
        if bkt is None:
            raise
        # acceptance of inputs is C10's subject (a 3-day span with a hole is read as billing data); no prediction to compare
        rec.note("altered-data-rejected:" + bkt)
        rec.case(c, False, cls + ["altered-data-rejected"])
        return
    try:
        p2 = zoo.predict(m_alt, b, rep2)
    except Exception as e:
        bkt = exc_bucket(e)
        if bkt is None:
            raise
        rec.violation("%s/altered-run-raises/%s" % (fam, bkt), c, "%s: %s (alteration %s)" % (type(e).__name__, short(e, 160), c["alt"]))
        rec.case(c, True, cls)
        return
    a = p1["predicted"].astype(float)
    z = p2["predicted"].astype(float)
    if fam in ("hourly", "caltrack"):
        for name, p, x in (("original", p1, a), ("altered", p2, z)):
            if fam == "hourly" and not np.isfinite(x.values).all():
                rec.violation(fam + "/missing-prediction", c, "%s run: %d rows without a prediction" % (name, int((~np.isfinite(x.values)).sum())))
    common = a.index.intersection(z.index)
    av, zv = a.reindex(common).values, z.reindex(common).values
    both = np.isfinite(av) & np.isfinite(zv)
    if fam in ("hourly", "caltrack") and not np.array_equal(np.isfinite(av), np.isfinite(zv)):
        # the hourly families predict from weather alone: whether an hour gets a prediction cannot depend on its usage either
        i = int(np.nonzero(np.isfinite(av) != np.isfinite(zv))[0][0])
        rec.violation("%s/prediction-presence-depends-on-observed" % fam, c, "at %s: %r with the original usage, %r after '%s' (%d rows differ in having a prediction)" % (
            common[i], av[i], zv[i], c["alt"], int((np.isfinite(av) != np.isfinite(zv)).sum())))
    if not np.array_equal(av[both].view(np.uint64), zv[both].view(np.uint64)):
        i = int(np.nonzero(av[both].view(np.uint64) != zv[both].view(np.uint64))[0][0])
        tag = ""
        if sub and c.get("sub_entry", "from_series") == "from_series" and "observed" in df2:
            # from_series trims the weather to the metered span: when the altered usage starts or ends with missing readings, the first /
            # last day's mean temperature is taken over fewer hours. Only differences confined to those edge days carry this tag.
            o2s = df2["observed"]
            edge_nan = bool(np.isnan(o2s.values[0]) or np.isnan(o2s.values[-1]))
            diff_rows = common[both][av[both].view(np.uint64) != zv[both].view(np.uint64)]
            edge_days = {common[both][0], common[both][-1]}
            if edge_nan and set(diff_rows) <= edge_days:
                tag = "/edge-day/usage-missing-at-the-end-of-the-span"
        rec.violation("%s/prediction-depends-on-observed%s" % (fam, tag), c, "at %s: %r with the original usage, %r after '%s' (%d of %d rows differ)" % (
            common[both][i], av[both][i], zv[both][i], c["alt"], int((av[both] != zv[both]).sum()), int(both.sum())))
    # hourly families: same rows; daily/billing: a prediction of the altered run sits on a row of the original run (days are days)
    stray = z.index[np.isfinite(z.values)].difference(a.index)
    if (fam in ("hourly", "caltrack") and len(common) != len(a)) or len(stray):
        rec.violation(fam + "/rows-differ", c, "the two runs return different timestamps (%d / %d rows, %d in common; first %s / %s)" % (
            len(a), len(z), len(common), a.index[0] if len(a) else None, z.index[0] if len(z) else None))
    o1 = df["observed"].values.astype(float)
    o2 = df2["observed"].values.astype(float) if "observed" in df2 else np.full(len(o1), np.nan)
    changed = float(np.mean(~((o1 == o2) | (np.isnan(o1) & np.isnan(o2)))))
    nt = changed >= 0.1 and int(both.sum()) > 0 and (fam not in ("hourly", "caltrack") or c["rep"]["n"] >= 7)
    if fam in ("daily", "billing") and int(both.sum()) == 0:
        cls.append("no-common-rows")
    rec.case(c, bool(nt), cls)


def shards(tier, seed):
    q = tier == "quick"
    out = []
    for i in range(5):
        out.append({"family": "daily", "n": 16 if q else 150, "seed": mix(seed, ID, "daily", i)})
    for i in range(3):
        out.append({"family": "billing", "n": 14 if q else 120, "seed": mix(seed, ID, "billing", i)})
    for i in range(6):
        out.append({"family": "hourly", "n": 8 if q else 80, "seed": mix(seed, ID, "hourly", i)})
    for i in range(2):
        out.append({"family": "caltrack", "n": 2 if q else 10, "seed": mix(seed, ID, "caltrack", i)})
    out.append({"family": "caltrack", "fixed": True, "seed": int(seed)})
    out.append({"family": "daily", "fixed": "daily", "seed": int(seed)})
    return out


def fixed_caltrack_cases(seed):
    b = {"family": "caltrack", "profile": "caltrack", "tz": "America/Chicago", "start_day": 0, "n": 365, "noise_seed": 11 + seed % 50, "noise": 0.05,
         "usage": {"base": 20.0, "hs": 1.2, "hb": 50.0, "cs": 0.8, "cb": 68.0}, "weekend_shift": 0.2, "season_shift": 0.0, "south": False,
         "electric": True, "ghi": False}
    r = {"start_day": 400 + seed % 200, "n": 30, "noise_seed": 5, "observed": True, "T_shift": 0.0, "T_scale": 1.0}
    out = []
    for alt, absent in (("nan_head", False), ("nan_tail", True), ("nan_tail", False), ("nan_head", True), ("all_nan", False), ("scale", False)):
        out.append({"kind": "alt", "baseline": b, "rep": r, "alt": alt, "k": 3.0, "alt_seed": 1, "interim": None, "wx_gaps": [], "subdaily": False,
                    "sub_alt": "scale", "feed_h0": 0, "series_entry": True, "meter_rows_absent": absent})
    # hours that read exactly zero (an outage on an electric meter), through the constructor and through from_series, fresh and reloaded
    for series_entry, reloaded in ((False, False), (True, False), (False, True)):
        out.append({"kind": "alt", "baseline": b, "rep": r, "alt": "zero_cells", "k": 3.0, "alt_seed": 4, "interim": None, "wx_gaps": [], "subdaily": False,
                    "sub_alt": "scale", "feed_h0": 0, "series_entry": series_entry, "meter_rows_absent": False, "dups": [], "reloaded": reloaded})
    return out


def fixed_daily_subdaily_cases(seed):
    """daily model, reporting period delivered as hourly readings + hourly weather, through both entry points (cheap: one legacy fit)"""
    b = {"family": "daily", "profile": "legacy", "tz": "America/Chicago", "start_day": 0, "n": 365, "noise_seed": 3 + seed % 40, "noise": 0.05,
         "usage": {"base": 20.0, "hs": 1.2, "hb": 50.0, "cs": 0.8, "cb": 68.0}, "weekend_shift": 0.2, "season_shift": 0.0, "south": False,
         "electric": True}
    r = {"start_day": 400 + seed % 100, "n": 60, "noise_seed": 6, "observed": True, "T_shift": 0.0, "T_scale": 1.0}
    out = []
    for entry in ("frame", "from_series"):
        for alt in ("zero_night", "zero_cells", "nan_day_partial", "all_nan"):
            out.append({"kind": "alt", "baseline": b, "rep": r, "alt": "scale", "k": 3.0, "alt_seed": 2, "interim": None, "wx_gaps": [], "subdaily": True,
                        "sub_alt": alt, "feed_h0": 0, "series_entry": False, "meter_rows_absent": False, "dups": [], "sub_entry": entry})
    return out


def run_shard(spec, rec):
    if spec.get("fixed") == "daily":
        from ..hyp import run_judge

        for c in fixed_daily_subdaily_cases(spec["seed"]):
            run_judge(judge, c, rec)
        return
    if spec.get("fixed"):
        from ..hyp import run_judge

        for c in fixed_caltrack_cases(spec["seed"]):
            run_judge(judge, c, rec)
        return
    explore(cases(family=spec["family"]), judge, rec, max_examples=spec["n"], seed=spec["seed"], shrink=False)


def replay(case, rec):
    judge(case, rec)
