"""C06 — predictions come back one row per input timestamp, on the real clock."""
import contextlib
import copy
import datetime as dt
import io
import json

import numpy as np
import pandas as pd
from hypothesis import strategies as st

from ..core import exc_bucket, short
from ..gen import params as gp
from ..gen import synth, zoo
from ..hyp import explore, mix, run_judge

ID = "C06"
WARM = ["daily", "hourly"]
RULE = (
    "Part A (enumeration): every zone of pytz.all_timezones x every UTC-offset change 2000-01-01..2037-12-31 from the zone's "
    "transition table. For each (zone, transition) the three local days around the change are built as the hourly data class "
    "builds them; step: the clock-normalisation functions are driven with a slot-identifier vector and must return one slot per "
    "real hour in order (all pairs, both tiers; the transition day in the middle of a three-day span, as the first day, as the last day and alone); predict: a fitted HourlyModel whose stored document carries that zone predicts "
    "the span through the public API (quick: one pair per (zone, signature); thorough: all pairs) - rows must equal the data "
    "object's rows = the real hours of those local days (UTC arithmetic), predictions finite, and the rows of the day before and "
    "the day after must equal the prediction of that day alone (no slot shifted). Part B (generated): hourly / daily / billing "
    "models x curated zones x spans starting and ending at any hour or day (also on a transition day) x gaps x with/without "
    "usage: predict(data).index equals data.df.index, increasing, unique; hourly finite on every row; daily/billing finite "
    "exactly on rows with finite temperature (and usage, when supplied). Non-trivial: the span contains a transition day (all of "
    "part A; part B when a 23/25-hour day or DST date lies inside). Distinct = distinct (zone, transition) pairs / case descriptions."
)
ASSUMPTIONS = [
    "zones whose offset changes by a multiple of an hour are driven with on-the-local-hour readings; other shifts are their own class",
    "the hourly model is zone-agnostic apart from the zone string stored in the document (clusters keyed by month and weekday)",
    "a day's hourly prediction depends only on that day's inputs (checked with tolerance 1e-9 against the day predicted alone)",
]

LO = dt.datetime(2000, 1, 1)
HI = dt.datetime(2038, 1, 1)


def all_pairs():
    import pytz

    pairs = []
    for name in pytz.all_timezones:
        tz = pytz.timezone(name)
        tt = getattr(tz, "_utc_transition_times", [])
        ti = getattr(tz, "_transition_info", [])
        for i, (t, info) in enumerate(zip(tt, ti)):
            if i == 0 or not (LO <= t < HI):
                continue
            d = (info[0] - ti[i - 1][0]).total_seconds()
            if d == 0:
                continue
            loc = t + ti[i - 1][0]
            pairs.append({"kind": "pair", "zone": name, "utc": t.strftime("%Y-%m-%dT%H:%M:%S"), "shift": int(d),
                          "at": "%02d:%02d" % (loc.hour, loc.minute)})
    return pairs


def signature(p):
    return "shift=%+d/at=%s" % (p["shift"], p["at"])


def span_index(p, days_before=1, days_after=1):
    """Real hours of the local days [D-1, D+1] around the transition, as the hourly data class lays them out."""
    t = pd.Timestamp(p["utc"], tz="UTC")
    name = p["zone"]
    day = t.tz_convert(name).tz_localize(None).normalize()
    start = day - pd.Timedelta(days=days_before)
    end = day + pd.Timedelta(days=days_after, hours=23, minutes=59)
    # the grid the data class would build: hourly steps from local 00:00 of the first day
    first = None
    for minute in range(0, 72 * 60, 15):  # a whole local day can be missing (date-line changes)
        try:
            cand = (start + pd.Timedelta(minutes=minute)).tz_localize(name, nonexistent="raise", ambiguous=True)
            first = cand
            break
        except Exception:
            continue
    u = pd.date_range(first.tz_convert("UTC"), periods=24 * (days_before + days_after + 1) + 6, freq="h").tz_convert(name)
    w = u.tz_localize(None)
    return u[(w >= start) & (w <= end)]


# ------------------------------------------------------------------ part A, step level
def judge_step(p, rec):
    try:
        from opendsm.eemeter.models.hourly.model import _get_dst_indices, _transform_dst
    except ImportError:
        rec.note("normalisation-functions-not-importable")
        rec.case(p, False, ["sub=step", "unreachable"])
        return
    sig = signature(p)
    place = p.get("place", [1, 1])
    idx = span_index(p, place[0], place[1])
    cls = ["sub=step", "sig=" + sig, "place=%d+%d" % tuple(place)]
    if (idx.minute != 0).any():
        cls.append("off-hour-after-shift")
    df = pd.DataFrame({"observed": 1.0, "temperature": 1.0}, index=idx)
    key = "step/" + sig
    try:
        di = _get_dst_indices(df)
        ndays = len(set(idx.date))
        pred = np.arange(ndays * 24, dtype=float)
        out = _transform_dst(pred, di)
    except Exception as e:
        rec.violation(key + "/raises/" + type(e).__name__, p, "%s: %s" % (type(e).__name__, short(e, 120)))
        rec.case(p, True, cls)
        return
    if len(out) != len(idx):
        rec.violation(key + "/length", p, "%d slots for %d real hours" % (len(out), len(idx)))
    elif p["shift"] % 3600 == 0:  # slot identities are only defined when every real hour is on the local hour
        days = sorted(set(idx.date))
        exp = np.array([days.index(x.date()) * 24 + x.hour for x in idx], float)
        dup = idx.tz_localize(None).duplicated(keep="first")
        bad = [int(b) for b in np.nonzero(out != exp)[0] if not dup[b]]
        if bad:
            rec.violation(key + "/slot", p, "output slot %d carries slot id %r, expected %r (%s)" % (bad[0], out[bad[0]], exp[bad[0]], idx[bad[0]]))
    rec.case(p, True, cls)


# ------------------------------------------------------------------ part A, public predict
_HOURLY_DOC = {}


def hourly_doc(ghi=False):
    """Stored document of a small hourly model fitted once per process (zone substituted later)."""
    if ghi not in _HOURLY_DOC:
        from opendsm import eemeter as em

        df = synth.hourly_frame(days=365, tz="America/Chicago", start_day=365, noise_seed=11, ghi=ghi)
        with contextlib.redirect_stdout(io.StringIO()):
            data = em.HourlyBaselineData(df, is_electricity_data=True)
            m = em.HourlyModel(settings={"seed": 5}).fit(data, ignore_disqualification=True)
        _HOURLY_DOC[ghi] = json.loads(m.to_json())
    return copy.deepcopy(_HOURLY_DOC[ghi])


def hourly_model_for(zone, ghi=False):
    from opendsm import eemeter as em

    doc = hourly_doc(ghi)
    doc["info"]["baseline_timezone"] = zone
    doc["info"]["disqualification"] = []
    return em.HourlyModel.from_dict(doc)


def hourly_frame_on(idx, seed=0, observed=True, ghi=False):
    rng = np.random.default_rng(seed)
    doy = idx.dayofyear.values
    T = 55 - 25 * np.cos((doy - 15) / 365.25 * 2 * np.pi) + 8 * np.sin((idx.hour.values - 9) / 24 * 2 * np.pi) + rng.normal(0, 2, len(idx))
    df = pd.DataFrame({"temperature": T}, index=idx)
    if observed:
        df["observed"] = 1.0 + rng.random(len(idx))
    if ghi:
        df["ghi"] = np.clip(800 * np.sin((idx.hour.values - 6) / 12 * np.pi), 0, None)
    return df


def judge_pair_predict(p, rec):
    from opendsm import eemeter as em

    sig = signature(p)
    place = p.get("place", [1, 1])
    idx = span_index(p, place[0], place[1])
    cls = ["sub=predict", "sig=" + sig, "place=%d+%d" % tuple(place)]
    key = "predict/" + sig
    whole_hour = p["shift"] % 3600 == 0
    if not whole_hour:
        cls.append("off-hour-after-shift")
    df = hourly_frame_on(idx, seed=abs(hash(p["utc"])) % 1000, observed=p.get("observed", True))
    m = hourly_model_for(p["zone"])
    try:
        with contextlib.redirect_stdout(io.StringIO()):
            data = em.HourlyReportingData(df, is_electricity_data=True)
    except Exception as e:
        rec.violation(key + "/data-class-raises/" + type(e).__name__, p, "%s: %s" % (type(e).__name__, short(e, 120)))
        rec.case(p, True, cls)
        return
    di = data.df.index
    if whole_hour and not (len(di) == len(idx) and (di == idx).all()):
        rec.violation(key + "/data-rows", p, "data object has %d rows %s..%s, the local days have %d real hours %s..%s" % (
            len(di), di[0], di[-1], len(idx), idx[0], idx[-1]))
    try:
        with contextlib.redirect_stdout(io.StringIO()):
            out = m.predict(data, ignore_disqualification=True)
    except Exception as e:
        bkt = exc_bucket(e) or type(e).__name__
        rec.violation(key + "/raises/" + type(e).__name__, p, "%s: %s @%s" % (type(e).__name__, short(e, 120), bkt))
        rec.case(p, True, cls)
        return
    if not out.index.equals(di):
        rec.violation(key + "/rows", p, "predict returned %d rows, the data object has %d" % (len(out), len(di)))
    elif out.index.has_duplicates or not out.index.is_monotonic_increasing:
        rec.violation(key + "/order", p, "rows not unique and increasing")
    else:
        pv = out["predicted"].values.astype(float)
        if not np.isfinite(pv).all():
            rec.violation(key + "/not-finite", p, "%d rows without a finite prediction, first at %s" % (int((~np.isfinite(pv)).sum()), out.index[~np.isfinite(pv)][0]))
        else:
            # no slot shifted: the day before and the day after predicted alone give the same values
            dates = sorted(set(out.index.date))
            for d in (dates[0], dates[-1]):
                sel = out.index.date == d
                sub = df[df.index.isin(out.index[sel])]
                if len(sub) != 24:
                    continue
                try:
                    with contextlib.redirect_stdout(io.StringIO()):
                        d1 = em.HourlyReportingData(sub, is_electricity_data=True)
                        o1 = m.predict(d1, ignore_disqualification=True)
                except Exception:
                    continue
                a = out.loc[sel, "predicted"].values.astype(float)
                b = o1["predicted"].reindex(out.index[sel]).values.astype(float)
                if np.isfinite(b).all() and not np.allclose(a, b, rtol=1e-9, atol=1e-9):
                    j = int(np.argmax(np.abs(a - b)))
                    rec.violation(key + "/shifted", p, "%s: %r inside the span, %r when the day is predicted alone" % (out.index[sel][j], a[j], b[j]))
                    break
    rec.case(p, True, cls)


# ------------------------------------------------------------------ part B
ZONES_B = ["UTC", "America/Chicago", "America/New_York", "America/Los_Angeles", "Europe/London", "Europe/Berlin", "Australia/Sydney",
           "Australia/Adelaide", "Pacific/Auckland", "Asia/Kolkata", "Asia/Kathmandu", "Asia/Tokyo", "America/Phoenix",
           "Africa/Johannesburg", "America/St_Johns", "Europe/Lisbon", "America/Mexico_City", "Asia/Jerusalem"]


@st.composite
def span_cases(draw, family=None):
    fam = family or draw(st.sampled_from(["hourly", "daily", "billing"]))
    c = {"kind": "span", "family": fam, "tz": draw(st.sampled_from(ZONES_B)), "observed": draw(st.booleans()), "seed": draw(st.integers(0, 2 ** 16))}
    if fam == "hourly":
        c["start_h"] = draw(st.integers(0, 24 * 730))
        c["hours"] = draw(st.one_of(st.integers(1, 72), st.integers(24, 24 * 40), st.integers(24 * 40, 24 * 400)))
        c["absent"] = draw(st.lists(st.tuples(st.integers(0, 24 * 400), st.integers(1, 30)), max_size=3))
        c["nan_T"] = draw(st.lists(st.tuples(st.integers(0, 24 * 400), st.integers(1, 30)), max_size=3))
        c["nan_obs"] = draw(st.lists(st.tuples(st.integers(0, 24 * 400), st.integers(1, 30)), max_size=3))
        c["ghi"] = draw(st.booleans())
        c["entry"] = draw(st.sampled_from(["index", "index", "datetime_column"]))  # timestamps as the index or in a tz-aware column
    else:
        c["model"] = draw(gp.doc_case(families=(fam,)))
        c["model"]["tz"] = c["tz"]
        c["start_day"] = draw(st.integers(0, 900))
        c["n"] = draw(st.one_of(st.integers(1, 40), st.integers(40, 420))) if fam == "daily" else draw(st.integers(35, 420))
        c["nan_T"] = draw(st.lists(st.tuples(st.integers(0, 420), st.integers(1, 20)), max_size=3))
        c["nan_obs"] = draw(st.lists(st.tuples(st.integers(0, 420), st.integers(1, 20)), max_size=3))
        c["inf_T"] = draw(st.lists(st.integers(0, 420), max_size=2))
        c["hourly_T"] = draw(st.booleans())
        # a daily meter read at another hour than local midnight (06:00 gas day, 09:00, 13:00): the rows keep that hour
        c["read_hour"] = draw(st.sampled_from([0, 0, 0, 6, 9, 13])) if fam == "daily" else 0
    return c


def judge_span(c, rec):
    from opendsm import eemeter as em

    fam, tz = c["family"], c["tz"]
    cls = ["sub=span", "family=" + fam, "tz=" + tz, "observed=%d" % c["observed"]]
    if fam == "hourly":
        idx = pd.date_range(pd.Timestamp("2018-01-01", tz="UTC") + pd.Timedelta(hours=c["start_h"]), periods=c["hours"], freq="h").tz_convert(tz)
        if idx[0].minute:
            idx = idx - pd.Timedelta(minutes=int(idx[0].minute))
        df = hourly_frame_on(idx, seed=c["seed"], observed=True, ghi=c["ghi"])
        n = len(df)
        for a, ln in c["nan_T"]:
            df.iloc[a % n:(a % n) + ln, df.columns.get_loc("temperature")] = np.nan
        for a, ln in c["nan_obs"]:
            df.iloc[a % n:(a % n) + ln, df.columns.get_loc("observed")] = np.nan
        keep = np.ones(n, bool)
        for a, ln in c["absent"]:
            keep[a % n:(a % n) + ln] = False
        keep[0] = keep[-1] = True
        df = df[keep]
        if not c["observed"]:
            df = df.drop(columns=["observed"])
        if df["temperature"].notna().sum() == 0:
            rec.case(c, False, cls + ["no-temperature"])
            return
        m = hourly_model_for(tz, ghi=c["ghi"])
        if c.get("entry") == "datetime_column":
            df = df.copy()
            df.insert(0, "datetime", df.index)
            df = df.reset_index(drop=True)
            cls = cls + ["entry=datetime-column"]
        with contextlib.redirect_stdout(io.StringIO()):
            data = em.HourlyReportingData(df, is_electricity_data=True)
            out = m.predict(data, ignore_disqualification=True)
        di = data.df.index
        key = "span/hourly"
        if not out.index.equals(di):
            rec.violation(key + "/rows", c, "predict returned %d rows, the data object has %d" % (len(out), len(di)))
        elif out.index.has_duplicates or not out.index.is_monotonic_increasing:
            rec.violation(key + "/order", c, "rows not unique and increasing")
        else:
            pv = out["predicted"].values.astype(float)
            if not np.isfinite(pv).all():
                rec.violation(key + "/not-finite", c, "%d rows without a finite prediction, first at %s" % (int((~np.isfinite(pv)).sum()), out.index[~np.isfinite(pv)][0]))
        counts = pd.Series(1, index=di).groupby(di.date).sum()
        nt = bool(((counts == 23) | (counts == 25)).any())
        rec.case(c, nt, cls + ["dst-day=%d" % nt])
        return
    # daily / billing
    m, doc = gp.build_model(c["model"])
    n = c["n"]
    idx = synth.local_midnights(c["start_day"], n, tz)
    if c.get("read_hour"):
        idx = (idx.tz_localize(None).normalize() + pd.Timedelta(hours=c["read_hour"])).tz_localize(tz, ambiguous=True, nonexistent="shift_forward")
        cls = cls + ["read-hour=%d" % c["read_hour"]]
    rng = np.random.default_rng(c["seed"])
    T = synth.daily_temperature(idx, {}, rng)
    for a, ln in c["nan_T"]:
        T[a % n:(a % n) + ln] = np.nan
    for a in c["inf_T"]:
        T[a % n] = np.inf
    df = pd.DataFrame({"temperature": T}, index=idx)
    if c["observed"]:
        o = np.round(rng.uniform(5, 60, n))
        for a, ln in c["nan_obs"]:
            o[a % n:(a % n) + ln] = np.nan
        df["observed"] = o
    Rep = em.BillingReportingData if fam == "billing" else em.DailyReportingData
    with contextlib.redirect_stdout(io.StringIO()):
        try:
            data = Rep(df, is_electricity_data=True)
        except ValueError as e:
            if "Billing data is not allowed" not in str(e):
                raise
            # a short span with holes is read as billing data by the daily class: acceptance is C10's subject
            rec.note("data-class-rejects-short-span-with-holes")
            rec.case(c, False, cls + ["input-rejected"])
            return
        out = m.predict(data)
    dd = data.df
    key = "span/" + fam
    if not out.index.equals(dd.index):
        rec.violation(key + "/rows", c, "predict returned %d rows, the data object has %d" % (len(out), len(dd)))
    elif out.index.has_duplicates or not out.index.is_monotonic_increasing:
        rec.violation(key + "/order", c, "rows not unique and increasing")
    else:
        P = np.isfinite(out["predicted"].values.astype(float))
        want = np.isfinite(dd["temperature"].values.astype(float))
        if "observed" in dd:
            want &= np.isfinite(dd["observed"].values.astype(float))
        if not np.array_equal(P, want):
            i = int(np.nonzero(P != want)[0][0])
            rec.violation(key + "/finiteness", c, "%s: predicted finite=%s, temperature/usage finite=%s" % (out.index[i], P[i], want[i]))
    # DST date inside?
    off = pd.Series(out.index.map(lambda t: t.utcoffset()))
    nt = off.nunique() > 1
    if c.get("read_hour"):
        cls = cls + ["frame-keeps-read-hour=%d" % bool(len(dd) and dd.index[-1].hour == c["read_hour"])]
    rec.case(c, bool(nt), cls + ["dst-inside=%d" % nt])


# ------------------------------------------------------------------ CalTRACK hourly spans
CT_BASE = {"family": "caltrack", "profile": "caltrack", "start_day": 0, "n": 365, "noise_seed": 21, "noise": 0.05,
           "usage": {"base": 20.0, "hs": 1.2, "hb": 50.0, "cs": 0.8, "cb": 68.0}, "weekend_shift": 0.2, "season_shift": 0.0, "south": False,
           "electric": True, "ghi": False}


@st.composite
def caltrack_cases(draw):
    # spans of a day to fourteen months, starting on any hour: a span longer than a year, or a year that starts inside a month, meets
    # the same calendar month in two separate stretches
    return {"kind": "caltrack-span", "tz": draw(st.sampled_from(["America/Chicago", "Europe/Berlin"])),
            "start_h": draw(st.integers(0, 24 * 500)), "hours": draw(st.one_of(st.integers(24, 72), st.integers(24 * 20, 24 * 120), st.integers(24 * 366, 24 * 430))),
            "observed": draw(st.booleans()), "seed": draw(st.integers(0, 2 ** 16)), "entry": draw(st.sampled_from(["frame", "from_series"]))}


def judge_caltrack_span(c, rec):
    from opendsm import eemeter as em

    from ..gen import zoo

    b = dict(CT_BASE, tz=c["tz"])
    m, _ = zoo.fitted(b)
    idx = pd.date_range(pd.Timestamp("2018-02-01", tz="UTC") + pd.Timedelta(hours=c["start_h"]), periods=c["hours"], freq="h").tz_convert(c["tz"])
    df = hourly_frame_on(idx, seed=c["seed"], observed=True, ghi=False)
    with contextlib.redirect_stdout(io.StringIO()):
        try:
            if c["entry"] == "from_series":
                data = em.HourlyCaltrackReportingData.from_series(df["observed"] if c["observed"] else None, df["temperature"], is_electricity_data=True)
            else:
                data = em.HourlyCaltrackReportingData(df if c["observed"] else df.drop(columns=["observed"]), is_electricity_data=True)
        except ValueError as e:
            if "must be atleast hourly" not in str(e):
                raise
            # the class could not tell the frequency of the frame: an input it refuses (acceptance is not this property's subject)
            rec.note("caltrack-data-class-rejects-frame")
            rec.case(c, False, ["sub=caltrack-span", "input-rejected"])
            return
        out = m.predict(data)
    dd = data.df
    key = "span/caltrack"
    if not out.index.equals(dd.index):
        rec.violation(key + "/rows", c, "predict returned %d rows, the data object has %d" % (len(out), len(dd)))
    elif out.index.has_duplicates or not out.index.is_monotonic_increasing:
        rec.violation(key + "/order", c, "rows not unique and increasing")
    else:
        P = np.isfinite(out["predicted"].values.astype(float))
        want = np.isfinite(dd["temperature"].values.astype(float))
        if not np.array_equal(P, want):
            i = int(np.nonzero(P != want)[0][0])
            rec.violation(key + "/not-finite", c, "%d rows with a finite temperature and no finite prediction (or the reverse), first at %s" % (int((P != want).sum()), out.index[i]))
    months = pd.Series(idx.month.values)
    stretches = int((months != months.shift()).sum())
    rec.case(c, stretches > months.nunique(), ["sub=caltrack-span", "tz=" + c["tz"], "entry=" + c["entry"], "observed=%d" % c["observed"],
                                               "a-month-in-two-stretches=%d" % (stretches > months.nunique())])


JUDGES = {"pair-step": judge_step, "pair-predict": judge_pair_predict, "span": judge_span, "caltrack-span": judge_caltrack_span}


def judge(c, rec):
    k = c.get("mode") or c["kind"]
    JUDGES[k](c, rec)


def shards(tier, seed):
    q = tier == "quick"
    pairs = all_pairs()
    out = []
    PL = [[1, 1], [0, 1], [1, 0], [0, 0]]
    for i in range(4):
        out.append({"sub": "list", "mode": "pair-step", "lo": i, "step": 4, "places": PL})
    if q:
        seen, pick = set(), []
        order = sorted(range(len(pairs)), key=lambda j: mix(seed, pairs[j]["zone"], pairs[j]["utc"]))
        for j in order:
            k = (pairs[j]["zone"], signature(pairs[j]))
            if k not in seen:
                seen.add(k)
                pick.append(j)
        sel = sorted(pick)
    else:
        sel = list(range(len(pairs)))
    k = 6
    for i in range(k):
        out.append({"sub": "list", "mode": "pair-predict", "sel": sel[i::k], "places": PL})
    for fam, n in (("hourly", 3), ("daily", 2), ("billing", 1)):
        for i in range(n):
            out.append({"sub": "span", "family": fam, "n": (30 if fam == "hourly" else 120) if q else (300 if fam == "hourly" else 1500),
                        "seed": mix(seed, ID, fam, i)})
    for i in range(2):
        out.append({"sub": "caltrack-span", "n": 6 if q else 60, "seed": mix(seed, ID, "caltrack", i)})
    return out


def run_shard(spec, rec):
    if spec["sub"] == "list":
        pairs = all_pairs()
        if spec["mode"] == "pair-step":
            todo = pairs[spec["lo"]::spec["step"]]
        else:
            todo = [pairs[j] for j in spec["sel"]]
        # the transition day in the middle of the span, as its first day, as its last day, and alone
        for place in spec.get("places", [[1, 1]]):
            for p in todo:
                run_judge(judge, dict(p, mode=spec["mode"], place=place), rec)
        return
    if spec["sub"] == "caltrack-span":
        explore(caltrack_cases(), judge, rec, max_examples=spec["n"], seed=spec["seed"], shrink=False)
        return
    explore(span_cases(family=spec["family"]), judge, rec, max_examples=spec["n"], seed=spec["seed"], shrink=spec["family"] != "hourly")


def replay(case, rec):
    judge(case, rec)


def exhaustive_note(tier, merged):
    if tier == "thorough":
        return ("all (zone, UTC-offset change) pairs 2000-2037 of pytz.all_timezones, at the normalisation step and through "
                "HourlyModel.predict; part B is sampled")
    return ("all (zone, UTC-offset change) pairs 2000-2037 at the normalisation step; through HourlyModel.predict one pair per "
            "(zone, signature); part B is sampled")
