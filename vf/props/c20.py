"""C20 — baseline and reporting windows never leak across the intervention."""
import numpy as np
import pandas as pd
from hypothesis import strategies as st

from ..core import exc_bucket, short
from ..hyp import explore, mix

ID = "C20"
WARM = []
RULE = (
    "Cases are (series kind hourly/daily/irregular billing, zone, 1-3 columns or a Series, NaN cells, "
    "cut instant on/inside/before/after the data possibly expressed in another zone, max_days or an explicit "
    "opposite limit, all overshoot/ignore-gap flag combinations) for get_baseline_data and get_reporting_data. "
    "Non-trivial: the call returned a selection AND (the cut lies strictly inside the data and not on a "
    "timestamp, or an overshoot/ignore option changed the selection relative to the plain one). Distinct = "
    "distinct case descriptions (sha1 of canonical JSON)."
)
ASSUMPTIONS = [
    "input index is sorted, unique and timezone-aware (what every caller in the repository passes)",
    "with ignore_billing_period_gap_for_day_count the requested limit is, by the doc-string, replaced by the "
    "nearest data stamp, so a gap warning for that side is not demanded",
    "gap_at_*_start/end for the side determined by max_days is not demanded (max_days is not a requested limit)",
    "a selection whose rows are all partially NaN may either raise the dedicated error or be returned",
]

TZS = ["UTC", "America/Chicago", "Europe/London", "Australia/Sydney", "Asia/Kolkata", "America/Sao_Paulo"]


@st.composite
def cases(draw):
    c = {}
    c["fn"] = draw(st.sampled_from(["baseline", "reporting"]))
    c["kind"] = draw(st.sampled_from(["h", "D", "billing", "billing", "empty"] if draw(st.integers(0, 30)) == 0
                                     else ["h", "D", "billing", "billing"]))
    c["tz"] = draw(st.sampled_from(TZS))
    c["start_day"] = draw(st.integers(0, 700))
    c["start_hour"] = draw(st.integers(0, 23)) if c["kind"] == "h" else 0
    if c["kind"] == "h":
        c["n"] = draw(st.integers(1, 400))
    elif c["kind"] == "D":
        c["n"] = draw(st.integers(1, 800))
    elif c["kind"] == "billing":
        n = draw(st.integers(1, 30))
        c["n"] = n
        c["gaps"] = draw(st.lists(st.integers(20, 70), min_size=n - 1, max_size=n - 1))
    else:
        c["n"] = 0
    c["series"] = draw(st.booleans())
    c["ncols"] = 1 if c["series"] else draw(st.integers(1, 3))
    n = c["n"]
    c["nan"] = draw(st.lists(st.tuples(st.integers(0, max(n - 1, 0)), st.integers(0, c["ncols"] - 1)), max_size=6)) if n else []
    c["nan_tail"] = draw(st.integers(0, 3)) if draw(st.integers(0, 5)) == 0 else 0
    mode = draw(st.sampled_from(["on", "inside", "inside", "before", "after", "none"]))
    cut = {"mode": mode}
    if mode == "on":
        cut["i"] = draw(st.integers(0, max(n - 1, 0)))
    elif mode == "inside":
        cut["frac"] = draw(st.floats(0.001, 0.999))
    elif mode in ("before", "after"):
        cut["minutes"] = draw(st.one_of(st.integers(1, 100), st.integers(1, 1000000)))
    c["cut"] = cut
    c["cut_tz"] = draw(st.sampled_from([None, "UTC", "Asia/Tokyo"]))
    c["max_days"] = draw(st.one_of(st.none(), st.integers(1, 800), st.integers(1, 60)))
    c["other_days"] = None
    if c["max_days"] is None and mode != "none" and draw(st.booleans()):
        c["other_days"] = draw(st.integers(0, 800))
    c["over"] = draw(st.booleans())
    c["ign"] = draw(st.booleans())
    c["ndays"] = draw(st.one_of(st.none(), st.integers(0, 60)))
    return c


def build(c):
    tz = c["tz"]
    start = pd.Timestamp("2017-01-01") + pd.Timedelta(days=c["start_day"], hours=c["start_hour"])
    n = c["n"]
    if c["kind"] == "h":
        idx = pd.date_range(start.tz_localize("UTC"), periods=n, freq="h").tz_convert(tz)
    elif c["kind"] == "D":
        idx = pd.DatetimeIndex([start.normalize() + pd.Timedelta(days=i) for i in range(n)]).tz_localize(
            tz, nonexistent="shift_forward", ambiguous=True)
    elif c["kind"] == "billing":
        days = np.concatenate([[0], np.cumsum(c["gaps"])]).astype(int) if n > 1 else np.array([0])
        idx = pd.DatetimeIndex([start.normalize() + pd.Timedelta(days=int(d)) for d in days]).tz_localize(
            tz, nonexistent="shift_forward", ambiguous=True)
    else:
        idx = pd.DatetimeIndex([], tz=tz)
    cols = ["value", "b", "c"][: c["ncols"]]
    vals = np.arange(1, n * len(cols) + 1, dtype=float).reshape(n, len(cols)) if n else np.zeros((0, len(cols)))
    for r, k in c["nan"]:
        if r < n:
            vals[r, k] = np.nan
    if c["nan_tail"] and n:
        vals[-c["nan_tail"]:, :] = np.nan
        vals[: c["nan_tail"], :] = np.nan
    df = pd.DataFrame(vals, index=idx, columns=cols)
    data = df["value"] if c["series"] else df
    cut = c["cut"]
    t = None
    if n == 0:
        lo = hi = pd.Timestamp("2018-01-01", tz=tz)
    else:
        lo, hi = idx[0], idx[-1]
    if cut["mode"] == "on":
        t = idx[min(cut["i"], n - 1)] if n else lo
    elif cut["mode"] == "inside":
        t = (lo + (hi - lo) * cut["frac"]).tz_convert("UTC").floor("min").tz_convert(tz)
    elif cut["mode"] == "before":
        t = lo - pd.Timedelta(minutes=cut["minutes"])
    elif cut["mode"] == "after":
        t = hi + pd.Timedelta(minutes=cut["minutes"])
    if t is not None and c["cut_tz"]:
        t = t.tz_convert(c["cut_tz"])
    other = None
    if c["other_days"] is not None and t is not None:
        other = t - pd.Timedelta(days=c["other_days"]) if c["fn"] == "baseline" else t + pd.Timedelta(days=c["other_days"])
    return data, t, other


def bits(a):
    return np.ascontiguousarray(np.asarray(a, dtype=np.float64)).view(np.uint64)


def same_obj(a, b):
    """Deep equality of two pandas objects: values bitwise, index labels, tz, freq, names, dtypes."""
    if type(a) is not type(b):
        return "type changed"
    if not a.index.equals(b.index) or str(a.index.dtype) != str(b.index.dtype):
        return "index changed"
    if getattr(a.index, "freq", None) != getattr(b.index, "freq", None):
        return "index.freq changed"
    if isinstance(a, pd.DataFrame):
        if list(a.columns) != list(b.columns) or list(map(str, a.dtypes)) != list(map(str, b.dtypes)):
            return "columns/dtypes changed"
    elif a.name != b.name or str(a.dtype) != str(b.dtype):
        return "name/dtype changed"
    if a.shape != b.shape or not np.array_equal(bits(a.values), bits(b.values)):
        return "values changed"
    return None


def nearest_set(idx, target):
    """Positions in idx at minimal absolute distance from target (ties: all of them)."""
    d = np.abs((idx - target).asi8)
    m = d.min()
    return set(np.nonzero(d == m)[0].tolist())


def reference(c, idx, t, other):
    """Returns dict(sel=set of admissible (lo,hi) position ranges, must_raise, ...) from the doc-string."""
    fn = c["fn"]
    n = len(idx)
    big = pd.Timedelta(days=c["max_days"]) if c["max_days"] is not None else None
    if fn == "baseline":
        end, start = t, other
        m = np.ones(n, bool) if end is None else np.asarray(idx <= end)
        side = idx[m]
        if len(side) == 0:
            return {"ranges": [], "empty": True}
        hi = int(np.nonzero(m)[0][-1])
        end_limit = end
        if c["ign"] and end is not None and (c["ndays"] is None or end - pd.Timedelta(days=c["ndays"]) < side.max()):
            end_limit = side.max()
        elif c["ign"] and end is None:
            end_limit = side.max()
        target = None
        if end is not None and big is not None:
            target = end_limit - big
        elif start is not None:
            target = start
        if target is None:
            los = {0}
        elif c["over"]:
            los = nearest_set(side, target)
        else:
            ge = np.nonzero(np.asarray(side >= target))[0]
            los = {int(ge[0])} if len(ge) else set()
        return {"ranges": [(lo, hi) for lo in sorted(los)], "empty": not los, "target": target}
    else:
        start, end = t, other
        m = np.ones(n, bool) if start is None else np.asarray(idx >= start)
        if not m.any():
            return {"ranges": [], "empty": True}
        off = int(np.nonzero(m)[0][0])
        side = idx[m]
        start_limit = start
        if c["ign"]:
            start_limit = side.min()
        target = None
        if start is not None and big is not None:
            target = start_limit + big
        elif end is not None:
            target = end
        if target is None:
            his = {len(side) - 1}
        elif c["over"]:
            his = nearest_set(side, target)
        else:
            le = np.nonzero(np.asarray(side <= target))[0]
            his = {int(le[-1])} if len(le) else set()
        return {"ranges": [(off, off + h) for h in sorted(his)], "empty": not his, "target": target}


def judge(c, rec):
    from opendsm.eemeter.common.exceptions import NoBaselineDataError, NoReportingDataError
    from opendsm.eemeter.common.transform import get_baseline_data, get_reporting_data

    data, t, other = build(c)
    before = data.copy(deep=True)
    before_idx = data.index.copy(deep=True)
    fn = c["fn"]
    if fn == "baseline":
        kw = dict(start=other, end=t, max_days=c["max_days"], allow_billing_period_overshoot=c["over"],
                  n_days_billing_period_overshoot=c["ndays"], ignore_billing_period_gap_for_day_count=c["ign"])
        call, Err = get_baseline_data, NoBaselineDataError
    else:
        kw = dict(start=t, end=other, max_days=c["max_days"], allow_billing_period_overshoot=c["over"],
                  ignore_billing_period_gap_for_day_count=c["ign"])
        call, Err = get_reporting_data, NoReportingDataError
    ref = reference(c, before_idx, t, other)
    cls = ["fn=" + fn, "kind=" + c["kind"], "cut=" + c["cut"]["mode"], "over=%d" % c["over"], "ign=%d" % c["ign"],
           "max_days=" + ("none" if c["max_days"] is None else "set"), "series" if c["series"] else "frame"]
    P = fn
    raised = None
    out = warns = None
    try:
        out, warns = call(data, **kw)
    except Err as e:
        raised = e
    except Exception as e:  # any other exception: the statement promises a selection or the dedicated error
        b = exc_bucket(e) or ("%s@outside" % type(e).__name__)
        d = same_obj(data, before)
        if d:
            rec.violation(P + "/input-modified", c, d)
        rec.case(c, False, cls + ["outcome=other-exception"])
        rec.violation("%s/raises/%s" % (P, b), c, "%s: %s" % (type(e).__name__, short(e, 200)))
        return
    d = same_obj(data, before)
    if d:
        rec.violation(P + "/input-modified", c, d)

    # is there a complete / any row in each admissible selection?
    vals = before.values.reshape(len(before), c["ncols"])
    complete = np.isfinite(vals).all(axis=1)

    def n_complete(r):
        return int(complete[r[0]: r[1] + 1].sum())

    if raised is not None:
        rec.expected(type(raised).__name__)
        rec.case(c, False, cls + ["outcome=dedicated-error"])
        if ref["ranges"] and all(n_complete(r) > 0 for r in ref["ranges"]):
            rec.violation(P + "/dedicated-error-on-nonempty-selection", c,
                          "raised %s although the selection %s has complete rows" % (type(raised).__name__, ref["ranges"]))
        return

    # returned a selection
    if ref["empty"] or not ref["ranges"]:
        rec.case(c, False, cls + ["outcome=selection"])
        rec.violation(P + "/no-error-on-empty-selection", c, "returned %d rows where no row qualifies" % len(out))
        return
    if type(out) is not type(before):
        rec.violation(P + "/type", c, "returned %s for %s input" % (type(out).__name__, type(before).__name__))
        rec.case(c, False, cls)
        return
    pos = before_idx.get_indexer(out.index)
    ok_slice = len(pos) > 0 and (pos >= 0).all() and (np.diff(pos) == 1).all()
    if not ok_slice:
        rec.case(c, False, cls + ["outcome=selection"])
        rec.violation(P + "/not-a-contiguous-slice", c, "positions %s" % pos[:10].tolist())
        return
    got = (int(pos[0]), int(pos[-1]))
    # limits (independent of the exact reference range)
    if fn == "baseline":
        if t is not None and out.index.max() > t:
            rec.violation(P + "/leak-past-end", c, "last stamp %s > end %s" % (out.index.max(), t))
        if other is not None and not c["over"] and out.index.min() < other:
            rec.violation(P + "/before-start", c, "first stamp %s < start %s" % (out.index.min(), other))
        if c["max_days"] is not None and t is not None and not c["over"] and not c["ign"]:
            if out.index.min() < t - pd.Timedelta(days=c["max_days"]):
                rec.violation(P + "/earlier-than-max-days", c, "first stamp %s" % out.index.min())
    else:
        if t is not None and out.index.min() < t:
            rec.violation(P + "/leak-before-start", c, "first stamp %s < start %s" % (out.index.min(), t))
        if other is not None and not c["over"] and out.index.max() > other:
            rec.violation(P + "/after-end", c, "last stamp %s > end %s" % (out.index.max(), other))
        if c["max_days"] is not None and t is not None and not c["over"] and not c["ign"]:
            if out.index.max() > t + pd.Timedelta(days=c["max_days"]):
                rec.violation(P + "/later-than-max-days", c, "last stamp %s" % out.index.max())
    if got not in ref["ranges"]:
        rec.violation(P + "/wrong-selection" + ("-overshoot" if c["over"] else "") + ("-ign" if c["ign"] else ""), c,
                      "rows %s..%s selected, expected one of %s" % (got[0], got[1], ref["ranges"]))
    # values
    ov = out.values.reshape(len(out), c["ncols"])
    if not np.isnan(ov[-1]).all():
        rec.violation(P + "/final-row-not-blank", c, "final row %s" % ov[-1].tolist())
    if not np.array_equal(bits(ov[:-1]), bits(vals[got[0]: got[1]])):
        rec.violation(P + "/values-changed", c, "values differ from the input inside the selection")
    if isinstance(out, pd.DataFrame) and list(out.columns) != list(before.columns):
        rec.violation(P + "/columns-changed", c, str(list(out.columns)))
    if str(out.index.tz) != str(before_idx.tz):
        rec.violation(P + "/timezone-changed", c, "%s -> %s" % (before_idx.tz, out.index.tz))
    # warnings
    names = sorted(w.qualified_name.rsplit(".", 1)[-1] for w in warns)
    lo_name, hi_name = ("gap_at_baseline_start", "gap_at_baseline_end") if fn == "baseline" else (
        "gap_at_reporting_start", "gap_at_reporting_end")
    req_lo, req_hi = (other, t) if fn == "baseline" else (t, other)
    dmin, dmax = before_idx.min(), before_idx.max()
    allowed = set()
    # a requested limit beyond the data extent -> warning (not demanded where the option replaces the limit)
    if req_hi is not None and dmax < req_hi:
        allowed.add(hi_name)
        lim_replaced = (fn == "baseline" and c["ign"]) or (fn == "reporting" and c["over"])
        if not lim_replaced and hi_name not in names:
            rec.violation(P + "/missing-" + hi_name, c, "requested %s, data ends %s, warnings %s" % (req_hi, dmax, names))
    if req_lo is not None and req_lo < dmin:
        allowed.add(lo_name)
        lim_replaced = (fn == "reporting" and c["ign"]) or (fn == "baseline" and c["over"])
        if not lim_replaced and lo_name not in names:
            rec.violation(P + "/missing-" + lo_name, c, "requested %s, data starts %s, warnings %s" % (req_lo, dmin, names))
    for nme in names:
        if nme not in allowed:
            rec.violation(P + "/spurious-" + nme, c, "warning %s although the data covers the requested limit" % nme)
    # non-trivial?
    plain = dict(c, over=False, ign=False)
    pr = reference(plain, before_idx, t, other)["ranges"]
    changed = (c["over"] or c["ign"]) and (got not in pr)
    inside = c["cut"]["mode"] == "inside" and t is not None and t not in before_idx
    rec.case(c, bool(changed or inside), cls + ["outcome=selection", "option-changed-selection=%d" % bool(changed)])


def shards(tier, seed):
    n = 16
    per = 1500 if tier == "quick" else 20000
    return [{"i": i, "n": per, "seed": mix(seed, ID, i), "shrink": True} for i in range(n)]


def run_shard(spec, rec):
    explore(cases(), judge, rec, max_examples=spec["n"], seed=spec["seed"], shrink=spec["shrink"])


def replay(case, rec):
    judge(case, rec)
