"""C16 — reported fit statistics are the true statistics of the model predictions."""
import math

import numpy as np
import pandas as pd
from hypothesis import strategies as st

from ..gen import synth
from ..hyp import explore, mix

ID = "C16"
WARM = ["daily", "hourly"]
RULE = (
    "Five sub-domains. arrays: observed/predicted pairs of length 2-2000 (magnitudes 1e-6..1e7, negative and zero-mean series, "
    "constant series, NaN/+-inf rows, perfect predictions, num_model_params 1..n+5) through BaselineMetrics, compared with "
    "textbook formulas in plain numpy. reporting: the same for ReportingMetrics (savings, n, sums, t, ASHRAE-14 uncertainty "
    "expression of the module). hourly: fitted HourlyModels whose cvrmse/pnrmse thresholds are placed just above and just below "
    "the values the fit produced; stored baseline_metrics must equal BaselineMetrics(predict(baseline)) on non-interpolated "
    "hours and the poor-fit disqualification must be present iff both adjusted ratios miss their thresholds. daily: fitted "
    "daily/billing models; model.error must equal the formulas on predict(baseline) residuals of the scored components and the "
    "CVRMSE disqualification must be present iff CVRMSE > threshold. caltrack: ModelMetrics on positive series. Non-trivial: "
    "arrays/reporting - at least one non-finite row dropped, or a ratio denominator inside the guard band or non-positive, or "
    "n <= num_model_params; hourly/daily - a threshold within 1% of the fitted value. Distinct = distinct case descriptions."
)
ASSUMPTIONS = [
    "R-squared is the squared Pearson correlation; PNRMSE is normalised by the inter-quartile range of observed (numpy linear "
    "quantiles); lag-1 autocorrelation is the Pearson correlation of consecutive residuals (as the module documents)",
    "a ratio with denominator > 1e-3 must be num/den; with denominator <= 0 it must be None or non-finite; in between either",
    "formula clauses are asserted when >= 2 finite pairs remain",
    "the uncertainty expression is the ASHRAE-14 form written in opendsm/common/metrics.py, t with ddof-1 degrees of freedom",
]

fl = st.one_of(st.floats(-1e6, 1e6, allow_nan=False), st.floats(-1e-3, 1e-3), st.floats(0, 100),
               st.sampled_from([0.0, float("nan"), float("inf"), float("-inf"), 1.0, -1.0, 1e7, 1e-6]))


@st.composite
def array_cases(draw):
    n = draw(st.one_of(st.integers(2, 12), st.integers(2, 60), st.integers(60, 2000)))
    mode = draw(st.sampled_from(["free", "free", "positive", "const_obs", "zero_mean", "perfect", "tiny_mean", "negative_mean"]))
    c = {"kind": "arrays", "n": n, "mode": mode, "p": draw(st.one_of(st.integers(1, 5), st.integers(1, n + 5)))}
    if n <= 60:
        c["obs"] = draw(st.lists(fl, min_size=n, max_size=n))
        c["pred"] = draw(st.lists(fl, min_size=n, max_size=n))
    else:
        c["seed"] = draw(st.integers(0, 2 ** 31 - 1))
        c["scale"] = draw(st.sampled_from([1e-6, 1e-3, 1.0, 100.0, 1e7]))
        c["bad"] = draw(st.lists(st.tuples(st.integers(0, n - 1), st.sampled_from(["nan", "inf", "-inf"]), st.booleans()), max_size=5))
    c["reporting"] = draw(st.booleans())
    if c["reporting"]:
        c["freq"] = draw(st.sampled_from(["hourly", "daily", "billing"]))
        c["conf"] = draw(st.sampled_from([0.9, 0.8, 0.95, 0.5]))
        c["tail"] = draw(st.sampled_from([1, 2]))
        c["m"] = draw(st.integers(2, 400))
        c["rseed"] = draw(st.integers(0, 2 ** 31 - 1))
        c["rbad"] = draw(st.lists(st.integers(0, 399), max_size=3))
        # the reporting period on a local clock (rows stamped at local midnight / on the local hour), starting on any day:
        # the number of calendar months it touches is a local-calendar notion
        c["rtz"] = draw(st.sampled_from(["UTC", "UTC", "Europe/Berlin", "Asia/Tokyo", "America/Chicago", "Australia/Sydney", "Pacific/Auckland"]))
        c["rstart"] = draw(st.sampled_from(["2020-01-01", "2020-01-01", "2021-03-01", "2019-11-01", "2020-06-15", "2021-01-31"]))
        c["m"] = draw(st.one_of(st.integers(2, 400), st.sampled_from([28, 31, 59, 90, 91, 181])))
    return c


def arrays_of(c):
    n = c["n"]
    if "obs" in c:
        # magnitudes 1e-6 .. 1e7 (the quantifier's range): round away denormal-scale values such as 4e-111
        o = np.round(np.array(c["obs"], float), 9)
        p = np.round(np.array(c["pred"], float), 9)
    else:
        rng = np.random.default_rng(c["seed"])
        o = rng.normal(10, 4, n) * c["scale"]
        p = o + rng.normal(0, 1, n) * c["scale"]
        for i, what, inobs in c["bad"]:
            (o if inobs else p)[i] = {"nan": np.nan, "inf": np.inf, "-inf": -np.inf}[what]
    mode = c["mode"]
    f = np.isfinite(o)
    if mode == "positive":
        o = np.where(f, np.abs(o) + 1.0, o)
    elif mode == "const_obs":
        o = np.where(f, 5.0, o)
    elif mode == "zero_mean" and f.sum() >= 2:
        o = o.copy()
        o[f] = o[f] - o[f].mean()
    elif mode == "tiny_mean" and f.sum() >= 2:
        o = o.copy()
        o[f] = (o[f] - o[f].mean()) + 5e-4
    elif mode == "negative_mean" and f.sum() >= 2:
        o = o.copy()
        o[f] = -np.abs(o[f]) - 1.0
    if mode == "perfect":
        p = o.copy()
    return o, p


def pearson(a, b):
    a = np.asarray(a, float)
    b = np.asarray(b, float)
    if len(a) < 2:
        return float("nan")
    da, db = a - a.mean(), b - b.mean()
    den = math.sqrt(float((da * da).sum()) * float((db * db).sum()))
    if den == 0:
        return float("nan")
    return float((da * db).sum()) / den


def ref_metrics(o, p, k):
    ok = np.isfinite(o) & np.isfinite(p)
    oo, pp = o[ok], p[ok]
    n = int(ok.sum())
    r = oo - pp
    R = {"n": n}
    if n == 0:
        return R
    R["sse"] = float((r * r).sum())
    R["mse"] = R["sse"] / n
    R["rmse"] = math.sqrt(R["mse"])
    R["ddof"] = max(n - k, 1)
    R["rmse_adj"] = math.sqrt(R["sse"] / R["ddof"])
    R["mae"] = float(np.abs(r).mean())
    R["mbe"] = float(r.mean())
    R["mean"] = float(oo.sum()) / n
    R["iqr"] = float(np.diff(np.quantile(oo, [0.25, 0.75]))[0])
    rho = pearson(r[1:], r[:-1]) if n >= 3 else float("nan")
    R["rho"] = rho
    npr = n * (1 - rho) / (1 + rho) if (not math.isnan(rho) and (1 + rho) != 0) else float("nan")
    R["n_prime"] = npr if math.isfinite(npr) else 1.0
    R["ddof_autocorr"] = max(R["n_prime"] - k, 1)
    R["rmse_autocorr_adj"] = math.sqrt(R["sse"] / R["ddof_autocorr"])
    R["r2"] = pearson(pp, oo) ** 2
    return R


def close(a, b, tol, scale=0.0):
    if a is None or b is None:
        return a is None and b is None
    if math.isnan(a) and math.isnan(b):
        return True
    if math.isinf(a) or math.isinf(b):
        return a == b
    return abs(a - b) <= tol * (abs(b) + scale) + 1e-300


def check_ratio(rec, c, name, got, num, den, tol=1e-8):
    """denominator > 1e-3 -> value; <= 0 -> undefined (None or non-finite); in between either."""
    if den > 1e-3:
        if got is None or not close(float(got), num / den, tol, 0.0):
            rec.violation("ratio/%s/wrong-value" % name, c, "%s=%r, expected %r/%r=%r" % (name, got, num, den, num / den))
        return "defined"
    if den <= 0:
        if got is not None and math.isfinite(float(got)):
            rec.violation("ratio/%s/finite-over-non-positive-denominator" % name, c, "%s=%r with numerator %r and denominator %r" % (name, got, num, den))
        return "undefined"
    return "band"


def judge_arrays(c, rec):
    from opendsm.common.metrics import BaselineMetrics, ReportingMetrics

    o, p = arrays_of(c)
    k = c["p"]
    df = pd.DataFrame({"observed": o, "predicted": p})
    R = ref_metrics(o, p, k)
    n = R["n"]
    cls = ["sub=arrays", "mode=" + c["mode"]]
    if n < 2:
        try:
            BaselineMetrics(df=df, num_model_params=k).model_dump()
        except Exception as e:
            rec.expected("degenerate:" + type(e).__name__)
        rec.case(c, False, cls + ["degenerate"])
        return
    bm = BaselineMetrics(df=df, num_model_params=k)
    d = bm.model_dump()
    scale = float(np.abs(np.concatenate([o[np.isfinite(o)], p[np.isfinite(p)]])).max()) if n else 1.0
    tol = 1e-9

    def chk(name, got, exp, t=tol, sc=0.0):
        if got is None or not close(float(got), exp, t, sc):
            rec.violation("value/" + name, c, "%s=%r, textbook %r (n=%d, p=%d)" % (name, got, exp, n, k))

    chk("n", d["n"], n, 0)
    chk("sse", d["sse"], R["sse"], 1e-9, scale * scale * 1e-6)
    chk("mse", d["mse"], R["mse"], 1e-9, scale * scale * 1e-6)
    chk("rmse", d["rmse"], R["rmse"], 1e-9, scale * 1e-6)
    chk("ddof", d["ddof"], R["ddof"], 0)
    chk("rmse_adj", d["rmse_adj"], R["rmse_adj"], 1e-9, scale * 1e-6)
    chk("mae", d["mae"], R["mae"], 1e-9, scale * 1e-6)
    chk("mbe", d["mbe"], R["mbe"], 1e-9, scale * 1e-6)
    chk("observed.mean", d["observed"]["mean"], R["mean"], 1e-9, scale * 1e-9)
    chk("observed.iqr", d["observed"]["iqr"], R["iqr"], 1e-9, scale * 1e-9)
    # identities
    if not close(d["rmse"] ** 2 * d["n"], d["sse"], 1e-9, scale * scale * 1e-6):
        rec.violation("identity/rmse2n-sse", c, "rmse^2*n=%r sse=%r" % (d["rmse"] ** 2 * d["n"], d["sse"]))
    kinds = []
    kinds.append(check_ratio(rec, c, "cvrmse", d["cvrmse"], R["rmse"], R["mean"]))
    kinds.append(check_ratio(rec, c, "cvrmse_adj", d["cvrmse_adj"], R["rmse_adj"], R["mean"]))
    kinds.append(check_ratio(rec, c, "nmae", d["nmae"], R["mae"], R["mean"]))
    kinds.append(check_ratio(rec, c, "nmbe", d["nmbe"], R["mbe"], R["mean"]))
    kinds.append(check_ratio(rec, c, "pnrmse", d["pnrmse"], R["rmse"], R["iqr"]))
    kinds.append(check_ratio(rec, c, "pnrmse_adj", d["pnrmse_adj"], R["rmse_adj"], R["iqr"]))
    kinds.append(check_ratio(rec, c, "pnmae", d["pnmae"], R["mae"], R["iqr"]))
    # correlation-based statistics: only when well conditioned (spread well above rounding)
    oo = o[np.isfinite(o) & np.isfinite(p)]
    pp = p[np.isfinite(o) & np.isfinite(p)]
    cond = oo.std() > 1e-6 * (abs(oo).max() + 1e-300) and pp.std() > 1e-6 * (abs(pp).max() + 1e-300)
    if cond and not math.isnan(R["r2"]):
        chk("r_squared", d["r_squared"], R["r2"], 1e-6, 1e-9)
        den = R["ddof"] - 1
        num = (1 - R["r2"]) * (n - 1)
        if den > 1e-3:
            exp = 1 - num / den
            got = d["r_squared_adj"]
            if got is None or not close(float(got), exp, 1e-6, 1e-6):
                rec.violation("value/r_squared_adj", c, "r_squared_adj=%r, textbook %r" % (got, exp))
    r = oo - pp
    rcond = r.std() > 1e-6 * (abs(r).max() + 1e-300) and n >= 4
    if rcond and not math.isnan(R["rho"]) and abs(1 + R["rho"]) > 1e-6:
        chk("n_prime", d["n_prime"], R["n_prime"], 1e-6, 1e-9)
        chk("ddof_autocorr", d["ddof_autocorr"], R["ddof_autocorr"], 1e-6, 1e-9)
        chk("rmse_autocorr_adj", d["rmse_autocorr_adj"], R["rmse_autocorr_adj"], 1e-6, scale * 1e-9)
        check_ratio(rec, c, "cvrmse_autocorr_adj", d["cvrmse_autocorr_adj"], R["rmse_autocorr_adj"], R["mean"], 1e-6)
    dropped = int(len(o) - n)
    nt = dropped > 0 or any(x != "defined" for x in kinds) or n <= k
    # ---- reporting metrics on top of this baseline
    if c.get("reporting") and cond and rcond and R["mean"] > 1e-3:
        rng = np.random.default_rng(c["rseed"])
        m = c["m"]
        ro = rng.normal(9, 4, m) * (scale / 10 + 1e-12)
        rp = ro + rng.normal(1, 1, m) * (scale / 10 + 1e-12)
        for i in c["rbad"]:
            if i < m:
                ro[i] = np.nan
        okr = np.isfinite(ro) & np.isfinite(rp)
        mm = int(okr.sum())
        if mm < 2:  # a reporting frame without two finite pairs is degenerate
            rec.case(c, False, cls + ["reporting-degenerate"])
            return
        if c.get("rtz"):
            if c["freq"] == "hourly":
                idx = pd.date_range(pd.Timestamp(c["rstart"], tz=c["rtz"]).tz_convert("UTC"), periods=m, freq="h").tz_convert(c["rtz"])
            else:
                idx = pd.DatetimeIndex([pd.Timestamp(d).tz_localize(c["rtz"]) for d in pd.date_range(c["rstart"], periods=m, freq="D")])
            cls.append("reporting-zone=" + ("UTC" if c["rtz"] == "UTC" else "east" if c["rtz"] in ("Europe/Berlin", "Asia/Tokyo", "Australia/Sydney", "Pacific/Auckland") else "west"))
        else:
            idx = pd.date_range("2020-01-01", periods=m, freq="D" if c["freq"] != "hourly" else "h", tz="UTC")
        rdf = pd.DataFrame({"observed": ro, "predicted": rp}, index=idx)
        rm = ReportingMetrics(baseline_metrics=bm, reporting_df=rdf, data_frequency=c["freq"], confidence_level=c["conf"], t_tail=c["tail"])
        rd = rm.model_dump()
        so, sp = float(ro[okr].sum()), float(rp[okr].sum())
        sscale = abs(so) + abs(sp)
        if rd["n"] != mm:
            rec.violation("reporting/n", c, "n=%r, finite pairs %d" % (rd["n"], mm))
        for name, got, exp in (("observed_sum", rd["observed_sum"], so), ("predicted_sum", rd["predicted_sum"], sp), ("savings", rd["savings"], sp - so)):
            if not close(float(got), exp, 1e-9, sscale * 1e-9):
                rec.violation("reporting/" + name, c, "%s=%r, textbook %r" % (name, got, exp))
        from scipy import stats

        alpha = 1 - c["conf"]
        perc = 1 - alpha / 2 if c["tail"] == 2 else 1 - alpha
        t = float(stats.t.ppf(perc, R["ddof"] - 1)) if R["ddof"] - 1 > 0 else float("nan")
        if not close(float(rd["t_stat"]), t, 1e-9, 1e-12):
            rec.violation("reporting/t_stat", c, "t_stat=%r, textbook %r" % (rd["t_stat"], t))
        cv = R["rmse_autocorr_adj"] / R["mean"]
        npr = R["n_prime"]
        # with residuals correlated to within rounding of 1 the corrected n is zero to rounding and the expression is a division by
        # (almost) zero: unbounded either way, not compared
        if math.isfinite(t) and npr > 1e-9 * n and mm > 0:
            base = sp * (t * cv * math.sqrt(n / (mm * npr) * (1 + 2 / npr)))
            if c["freq"] == "hourly":
                exp = 1.26 * base
            else:
                M = len(set(idx[okr].month))
                coefs = [-0.00024, 0.03535, 1.00286] if c["freq"] == "daily" else [-0.00022, 0.03306, 0.94054]
                exp = float(np.polyval(coefs, M)) * base
            got = rd["total_savings_uncertainty"]
            if got is None or not close(float(got), exp, 1e-6, abs(exp) * 1e-6):
                rec.violation("reporting/total_savings_uncertainty", c, "got %r, ASHRAE expression %r" % (got, exp))
            elif mm > 0 and not close(float(rd["predicted_data_point_unc"]), exp / math.sqrt(mm), 1e-6, 0.0):
                rec.violation("reporting/predicted_data_point_unc", c, "got %r expected %r" % (rd["predicted_data_point_unc"], exp / math.sqrt(mm)))
        cls.append("reporting=" + c["freq"])
    rec.case(c, bool(nt), cls + ["dropped=%d" % (dropped > 0), "n<=p=%d" % (n <= k)] + ["ratio=" + x for x in sorted(set(kinds))])


# ------------------------------------------------------------------ hourly fits
@st.composite
def hourly_cases(draw):
    return {"solver": draw(st.sampled_from(["default", "default", "adaptive"])), "kind": "hourly", "seed": draw(st.integers(0, 2 ** 31 - 1)), "tz": draw(st.sampled_from(["America/Chicago", "UTC", "Europe/London"])),
            "days": draw(st.integers(112, 150)), "noise": draw(st.sampled_from([0.05, 0.3, 1.0, 3.0])), "ghi": draw(st.booleans()),
            "gaps": draw(st.lists(st.integers(0, 112 * 24 - 1), max_size=20)),
            "shape": draw(st.sampled_from(["normal", "normal", "net_negative", "flat"])),  # an undefined CVRMSE / PNRMSE
            "side": draw(st.lists(st.sampled_from(["below", "above", "equal"]), min_size=2, max_size=2))}


def judge_hourly(c, rec):
    from opendsm import eemeter as em
    from opendsm.common.metrics import BaselineMetrics

    df = synth.hourly_frame(days=c["days"], tz=c["tz"], noise_seed=c["seed"], ghi=c["ghi"], noise=c["noise"])
    if c.get("shape") == "net_negative":  # net exporter: mean usage below zero, CVRMSE undefined
        df["observed"] = df["observed"] - float(df["observed"].mean()) - 0.5
    elif c.get("shape") == "flat":  # more than three quarters of the hours identical: IQR 0, PNRMSE undefined
        v = df["observed"].values.copy()
        v[np.arange(len(v)) % 5 != 0] = 1.0
        df["observed"] = v
    for g in c["gaps"]:
        if g < len(df):
            df.iloc[g, df.columns.get_loc("observed")] = np.nan
    data = em.HourlyBaselineData(df, is_electricity_data=False)
    base_settings = {"seed": 1}
    if c.get("solver") == "adaptive":  # the other solver path (iteratively re-weighted elastic net)
        base_settings["elasticnet"] = {"adaptive_weights": True, "adaptive_weight_max_iter": 3, "adaptive_weight_tol": 1e-2}
    m0 = em.HourlyModel(settings=dict(base_settings)).fit(data, ignore_disqualification=True)
    bm = m0.baseline_metrics
    cv, pn = bm.cvrmse_adj, bm.pnrmse_adj

    def thr(v, side):
        if v is None or not math.isfinite(v):
            return 1.0
        return {"below": v * (1 - 1e-6) - 1e-12, "above": v * (1 + 1e-6) + 1e-12, "equal": v}[side]

    tc, tp = thr(cv, c["side"][0]), thr(pn, c["side"][1])
    data = em.HourlyBaselineData(df, is_electricity_data=False)
    m = em.HourlyModel(settings=dict(base_settings, cvrmse_threshold=tc, pnrmse_threshold=tp)).fit(data, ignore_disqualification=True)
    b2 = m.baseline_metrics
    if (b2.cvrmse_adj, b2.pnrmse_adj) != (cv, pn):
        rec.violation("hourly/thresholds-influence-fit", c, "ratios changed with the thresholds: %r -> %r" % ((cv, pn), (b2.cvrmse_adj, b2.pnrmse_adj)))
    # stored metrics = metrics of predict(baseline) on non-interpolated hours
    out = m.predict(data, ignore_disqualification=True)
    cols = [x for x in out.columns if x.startswith("interpolated_")]
    keep = ~out[cols].any(axis=1)
    ref = BaselineMetrics(df=out.loc[keep, ["observed", "predicted"]], num_model_params=int(b2.num_model_params))
    R = ref_metrics(out.loc[keep, "observed"].values.astype(float), out.loc[keep, "predicted"].values.astype(float), int(b2.num_model_params))
    for name in ("n", "rmse", "rmse_adj", "mae", "mbe"):
        got = getattr(b2, name)
        if not close(float(got), R[name], 1e-7, 1e-9):
            rec.violation("hourly/stored-metric/" + name, c, "baseline_metrics.%s=%r, predict(baseline) on measured hours gives %r" % (name, got, R[name]))
    for name in ("cvrmse_adj", "pnrmse_adj"):
        a, b = getattr(b2, name), getattr(ref, name)
        if (a is None) != (b is None) or (a is not None and not close(float(a), float(b), 1e-7, 1e-9)):
            rec.violation("hourly/stored-metric/" + name, c, "baseline_metrics.%s=%r, recomputed %r" % (name, a, b))
    if cv is not None and R["mean"] > 1e-3 and not close(float(cv), R["rmse_adj"] / R["mean"], 1e-7, 1e-9):
        rec.violation("hourly/stored-metric/cvrmse_adj-formula", c, "cvrmse_adj=%r, rmse_adj/mean=%r" % (cv, R["rmse_adj"] / R["mean"]))
    # number of parameters = non-zero coefficients + intercept
    miss_c = not (cv is not None and cv < tc)
    miss_p = not (pn is not None and pn < tp)
    dq = any(w.qualified_name == "eemeter.model_fit_metrics" for w in m.disqualification)
    if dq != (miss_c and miss_p):
        rec.violation("hourly/gate", c, "poor-fit disqualification=%s but cvrmse_adj=%r (threshold %r), pnrmse_adj=%r (threshold %r)" % (dq, cv, tc, pn, tp))
    rec.case(c, True, ["sub=hourly", "solver=" + c.get("solver", "default"), "dq=%d" % dq, "sides=%s" % "-".join(c["side"]), "cv_none=%d" % (cv is None), "pn_none=%d" % (pn is None)])


# ------------------------------------------------------------------ daily / billing fits
@st.composite
def daily_cases(draw):
    return {"kind": "daily", "profile": draw(st.sampled_from(["legacy", "legacy", "billing", "current"])),
            "seed": draw(st.integers(0, 2 ** 31 - 1)), "tz": draw(st.sampled_from(["America/Chicago", "UTC", "Europe/Berlin"])),
            "noise": draw(st.sampled_from([0.05, 0.3, 0.8])), "n": draw(st.integers(330, 365)),
            "weekend_shift": draw(st.sampled_from([0.0, 0.3])), "side": draw(st.sampled_from(["below", "above", "equal"])),
            # the judged fit may be the second fit of the same model object (first on another, much cleaner or noisier meter)
            "prefit": draw(st.sampled_from([None, None, "clean", "noisy"]))}


def judge_daily(c, rec):
    from opendsm import eemeter as em

    df = synth.daily_frame(n=c["n"], tz=c["tz"], noise_seed=c["seed"], noise=c["noise"], weekend_shift=c["weekend_shift"])
    prof = c["profile"]

    def build(threshold=None):
        st_ = None if threshold is None else {"developer_mode": True, "silent_developer_mode": True, "cvrmse_threshold": threshold}
        if prof == "billing":
            return em.BillingModel(settings=st_), em.BillingBaselineData(df, is_electricity_data=True)
        if prof == "legacy":
            return em.DailyModel(model="legacy", settings=st_), em.DailyBaselineData(df, is_electricity_data=True)
        return em.DailyModel(settings=st_), em.DailyBaselineData(df, is_electricity_data=True)

    m0, d0 = build()
    m0.fit(d0, ignore_disqualification=True)
    cv0 = m0.error["CVRMSE"]
    thr = {"below": cv0 * (1 - 1e-6), "above": cv0 * (1 + 1e-6), "equal": cv0}[c["side"]]
    if prof == "current":
        m, d = m0, d0  # a second 2 s fit is not worth it: judge the default threshold
        thr = m.settings.cvrmse_threshold
    else:
        m, d = build(thr)
        if c.get("prefit"):
            pre = synth.daily_frame(n=350, tz=c["tz"], noise_seed=c["seed"] % 1000 + 3, noise=0.01 if c["prefit"] == "clean" else 1.5, weekend_shift=0.5)
            Pre = em.BillingBaselineData if prof == "billing" else em.DailyBaselineData
            m.fit(Pre(pre, is_electricity_data=True), ignore_disqualification=True)
        m.fit(d, ignore_disqualification=True)
    err = m.error
    if prof != "current" and err["CVRMSE"] != cv0:
        rec.violation("daily/threshold-influences-fit", c, "CVRMSE %r -> %r" % (cv0, err["CVRMSE"]))
    dq = any(w.qualified_name == "eemeter.model_fit_metrics.cvrmse" for w in m.disqualification)
    if dq != (err["CVRMSE"] > thr):
        rec.violation("daily/gate", c, "CVRMSE disqualification=%s, CVRMSE=%r, threshold=%r" % (dq, err["CVRMSE"], thr))
    # error metrics = formulas on the residuals of the scored components
    comps = m.best_combination.split("__")
    resid = np.hstack([m.fit_components[x].resid for x in comps])
    obs = np.hstack([m.fit_components[x].obs for x in comps])
    R = {"RMSE": math.sqrt(float((resid ** 2).mean())), "MAE": float(np.abs(resid).mean())}
    R["CVRMSE"] = R["RMSE"] / float(obs.mean())
    R["PNRMSE"] = R["RMSE"] / float(np.diff(np.quantile(obs, [0.05, 0.95]))[0])
    for k, v in R.items():
        if not close(float(err[k]), v, 1e-9, 1e-12):
            rec.violation("daily/error/" + k, c, "model.error[%s]=%r, formula %r" % (k, err[k], v))
    # the scored residuals are observed - fitted of those components on the baseline days
    for x in comps:
        fc = m.fit_components[x]
        if len(fc.resid) != len(fc.obs):
            rec.violation("daily/resid-length", c, "component %s" % x)
    stored = m.to_dict()["info"]["error"]
    for k in ("RMSE", "MAE", "CVRMSE", "PNRMSE", "wRMSE"):
        if stored.get(k) != err[k]:
            rec.violation("daily/stored-error/" + k, c, "to_dict()['info']['error'][%s]=%r, model.error=%r" % (k, stored.get(k), err[k]))
    rec.case(c, True, ["sub=daily", "profile=" + prof, "dq=%d" % dq, "side=" + c["side"], "reused-object=%d" % bool(c.get("prefit") and prof != "current")])


# ------------------------------------------------------------------ CalTRACK ModelMetrics
@st.composite
def caltrack_cases(draw):
    n = draw(st.integers(5, 400))
    return {"kind": "caltrack", "n": n, "seed": draw(st.integers(0, 2 ** 31 - 1)), "p": draw(st.integers(1, 4)),
            "nan": draw(st.lists(st.integers(0, n - 1), max_size=3)), "scale": draw(st.sampled_from([0.01, 1.0, 1000.0])),
            # hours without a prediction (other hours than the meter gaps; often as many of them)
            "nan_pred": draw(st.lists(st.integers(0, n - 1), max_size=3)), "same_count": draw(st.booleans())}


def judge_caltrack(c, rec):
    from opendsm.eemeter.models.hourly_caltrack.metrics import ModelMetrics

    rng = np.random.default_rng(c["seed"])
    n = c["n"]
    idx = pd.date_range("2020-01-01", periods=n, freq="h", tz="UTC")
    o = (rng.normal(10, 2, n).clip(0.5)) * c["scale"]
    p = o + rng.normal(0, 1, n) * c["scale"]
    for i in c["nan"]:
        o[i] = np.nan
    npred = [i for i in c.get("nan_pred", []) if i not in c["nan"]]
    if c.get("same_count") and c["nan"]:
        # exactly as many prediction gaps as meter gaps, each one row after a meter gap
        npred = sorted({(i + 1) % n for i in c["nan"]} - set(c["nan"]))
    for i in npred:
        p[i] = np.nan
    mm = ModelMetrics(pd.Series(o, index=idx), pd.Series(p, index=idx), num_parameters=c["p"])
    R = ref_metrics(o, p, c["p"])
    if R["n"] >= 3:
        if mm.merged_length != R["n"]:
            rec.violation("caltrack/merged_length", c, "%r vs %d" % (mm.merged_length, R["n"]))
        for name, got, exp in (("rmse", mm.rmse, R["rmse"]), ("r_squared", mm.r_squared, R["r2"]),
                               ("cvrmse", mm.cvrmse, R["rmse"] / R["mean"])):
            if got is None or not close(float(got), exp, 1e-8, 1e-12):
                rec.violation("caltrack/" + name, c, "%s=%r, textbook %r" % (name, got, exp))
        den = R["n"] - c["p"]
        if den > 0 and not close(float(mm.rmse_adj), math.sqrt(R["sse"] / den), 1e-8, 1e-12):
            rec.violation("caltrack/rmse_adj", c, "%r vs %r" % (mm.rmse_adj, math.sqrt(R["sse"] / den)))
    rec.case(c, len(c["nan"]) > 0, ["sub=caltrack", "prediction-gaps=%d" % min(len(npred), 3), "gap-counts-equal=%d" % (len(npred) == len(set(c["nan"])) > 0)])


JUDGES = {"arrays": judge_arrays, "hourly": judge_hourly, "daily": judge_daily, "caltrack": judge_caltrack}


def judge(c, rec):
    JUDGES[c["kind"]](c, rec)


def shards(tier, seed):
    q = tier == "quick"
    out = []
    for i in range(6):
        out.append({"sub": "arrays", "n": 500 if q else 8000, "seed": mix(seed, ID, "arrays", i)})
    for i in range(5):
        out.append({"sub": "hourly", "n": 4 if q else 40, "seed": mix(seed, ID, "hourly", i)})
    for i in range(4):
        out.append({"sub": "daily", "n": 6 if q else 60, "seed": mix(seed, ID, "daily", i)})
    out.append({"sub": "caltrack", "n": 200 if q else 3000, "seed": mix(seed, ID, "caltrack")})
    return out


STRATS = {"arrays": array_cases, "hourly": hourly_cases, "daily": daily_cases, "caltrack": caltrack_cases}


def run_shard(spec, rec):
    explore(STRATS[spec["sub"]](), judge, rec, max_examples=spec["n"], seed=spec["seed"], shrink=spec["sub"] in ("arrays", "caltrack"))


def replay(case, rec):
    judge(case, rec)
