"""C15 — a building that follows the model is recovered by the fit."""
import contextlib
import io

import numpy as np
import pandas as pd
from hypothesis import assume
from hypothesis import strategies as st

from ..gen import synth
from ..hyp import explore, mix

ID = "C15"
WARM = ["daily"]
RULE = (
    "Cases: exactly the stated family - base load 5-50, slopes 0.3-3 per degree, heating balance 45-58F, cooling balance 64-75F, "
    "shape in {heating, cooling, both, flat}, identical behaviour on all days and seasons, a generated weather year (mean 45-70F, "
    "amplitude 15-30F, AR(1) noise, either hemisphere) and a second weather year, 8 zones, multiplicative noise <= 1% from a "
    "drawn seed; daily meters (default, i.e. current, profile and the legacy profile; one legacy case in four re-uses a model object fitted on another building before) and monthly-billed meters (default billing "
    "profile; usage summed per calendar month). Cases with fewer than 30 days in an active regime are discarded (rate reported). "
    "Oracle: NRMSE between predict() and the generating curve <= 5% of mean usage on the baseline year and on the other year "
    "(billing: on calendar-month totals), and total heating (cooling) load <= 5% of total usage where the generator has none. "
    "Non-trivial: the generator has at least one slope. Distinct = distinct case descriptions."
)
ASSUMPTIONS = [
    "thresholds are the property's own (5%), not tightened; the observed distribution is written to the evidence notes",
    "billing models are judged on calendar-month totals of predict(aggregation='monthly') against the generating totals",
]
ZONES = ["America/Chicago", "America/New_York", "America/Los_Angeles", "Europe/London", "Europe/Berlin", "Australia/Sydney", "Asia/Tokyo", "UTC"]


@st.composite
def cases(draw, family=None):
    fam = family or draw(st.sampled_from(["daily", "daily_legacy", "billing"]))
    shape = draw(st.sampled_from(["heating", "cooling", "cooling", "both", "flat"]))
    c = {"kind": "recover", "family": fam, "shape": shape, "base": draw(st.floats(5, 50)),
         "hs": draw(st.floats(0.3, 3)) if shape in ("heating", "both") else 0.0, "hb": draw(st.floats(45, 58)),
         "cs": draw(st.floats(0.3, 3)) if shape in ("cooling", "both") else 0.0, "cb": draw(st.floats(64, 75)),
         "tz": draw(st.sampled_from(ZONES)), "start_day": draw(st.integers(0, 700)),
         "weather": {"mean": draw(st.floats(45, 70)), "amp": draw(st.floats(15, 30)), "sd": draw(st.floats(2, 7)), "south": draw(st.booleans())},
         "wseed": draw(st.integers(0, 2 ** 20)), "wseed2": draw(st.integers(0, 2 ** 20)), "noise": draw(st.sampled_from([0.0, 0.002, 0.01])),
         "nseed": draw(st.integers(0, 2 ** 20))}
    # one case in four re-uses a model object that was fitted on another building before
    c["prefit"] = draw(st.sampled_from([None, None, None, "heating", "cooling", "flat"]))
    # the other weather year may come from a harsher or a milder climate than the baseline year (its days then leave the baseline's
    # temperature range): shift of the annual mean and extra amplitude, in degrees F
    c["year2"] = draw(st.sampled_from([[0.0, 0.0], [0.0, 0.0], [0.0, 9.0], [-8.0, 4.0], [8.0, 4.0], [0.0, -6.0]]))
    return c


def gen_year(c, start_day, wseed, shift=(0.0, 0.0)):
    idx = synth.local_midnights(start_day, 365, c["tz"])
    rng = np.random.default_rng(wseed)
    w = dict(c["weather"], mean=c["weather"]["mean"] + shift[0], amp=max(c["weather"]["amp"] + shift[1], 5.0))
    T = synth.daily_temperature(idx, w, rng)
    y = synth.curve(T, {"base": c["base"], "hs": c["hs"], "hb": c["hb"], "cs": c["cs"], "cb": c["cb"]})
    return idx, T, y


def judge(c, rec):
    from opendsm import eemeter as em

    idx, T, y = gen_year(c, c["start_day"], c["wseed"])
    nh, nc = int((T < c["hb"]).sum()), int((T > c["cb"]).sum())
    if (c["hs"] > 0 and nh < 30) or (c["cs"] > 0 and nc < 30):
        rec.note("discarded:fewer-than-30-days-in-an-active-regime")
        assume(False)
    rng = np.random.default_rng(c["nseed"])
    obs = y * (1 + c["noise"] * np.clip(rng.normal(0, 0.5, len(y)), -1, 1))
    fam = c["family"]
    cls = ["family=" + fam, "shape=" + c["shape"], "reused-model=%d" % bool(c.get("prefit") and fam == "daily_legacy")]
    idx2, T2, y2 = gen_year(c, c["start_day"] + 365 + 30, c["wseed2"], tuple(c.get("year2", (0.0, 0.0))))
    outside = int(((T2 < T.min() - 1) | (T2 > T.max() + 1)).sum())
    cls.append("other-year-days-outside-baseline-range=" + ("0" if outside == 0 else "1-19" if outside < 20 else "20+"))
    with contextlib.redirect_stdout(io.StringIO()):
        if fam == "billing":
            df = pd.DataFrame({"temperature": T, "observed": np.nan}, index=idx)
            months = pd.Series(obs, index=idx).groupby([idx.year, idx.month]).transform("sum")
            first = ~pd.Series(list(zip(idx.year, idx.month)), index=idx).duplicated()
            df.loc[first.values, "observed"] = months[first.values]
            data = em.BillingBaselineData(df, is_electricity_data=True)
            m = em.BillingModel().fit(data, ignore_disqualification=True)
            rep2 = em.BillingReportingData(pd.DataFrame({"temperature": T2}, index=idx2), is_electricity_data=True)
            p1 = m.predict(data, ignore_disqualification=True)
            p2 = m.predict(rep2, ignore_disqualification=True)
        else:
            data = em.DailyBaselineData(pd.DataFrame({"temperature": T, "observed": obs}, index=idx), is_electricity_data=True)
            m = em.DailyModel(model="legacy") if fam == "daily_legacy" else em.DailyModel()
            if c.get("prefit") and fam == "daily_legacy":
                pre = {"heating": {"base": 30.0, "hs": 2.5, "hb": 55.0}, "cooling": {"base": 8.0, "cs": 2.5, "cb": 66.0}, "flat": {"base": 40.0}}[c["prefit"]]
                yp = synth.curve(T, pre) * (1 + 0.005 * np.sin(np.arange(len(T))))
                m.fit(em.DailyBaselineData(pd.DataFrame({"temperature": T, "observed": yp}, index=idx), is_electricity_data=True), ignore_disqualification=True)
            m.fit(data, ignore_disqualification=True)
            rep2 = em.DailyReportingData(pd.DataFrame({"temperature": T2}, index=idx2), is_electricity_data=True)
            p1 = m.predict(data, ignore_disqualification=True)
            p2 = m.predict(rep2, ignore_disqualification=True)
    mean = float(np.mean(y))

    def nrmse(p, index, truth):
        g = p["predicted"].reindex(index).values.astype(float)
        ok = np.isfinite(g)
        if fam == "billing":
            key = [index.year[ok], index.month[ok]]
            a = pd.Series(g[ok]).groupby([index.year[ok], index.month[ok]]).sum()
            b = pd.Series(truth[ok]).groupby([index.year[ok], index.month[ok]]).sum()
            cnt = pd.Series(truth[ok]).groupby([index.year[ok], index.month[ok]]).count()
            return float(np.sqrt(np.mean(((a - b) / cnt) ** 2))) / mean, int(ok.sum())
        return float(np.sqrt(np.mean((g[ok] - truth[ok]) ** 2))) / mean, int(ok.sum())

    e1, n1 = nrmse(p1, idx, y)
    e2, n2 = nrmse(p2, idx2, y2)
    key = "%s/%s" % (fam, c["shape"])
    if n1 < 300 or n2 < 300:
        rec.violation(key + "/too-few-predictions", c, "%d / %d days predicted" % (n1, n2))
    split_tag = "/split-selected" if "__" in str(getattr(m, "best_combination", "")) else ""

    exact_tag = "/noise-free" if (c["noise"] == 0 and fam == "daily_legacy") else ""

    def band(e):
        return ("5-40%" if e <= 0.40 else ">40%") + split_tag + exact_tag

    if not (e1 <= 0.05):
        rec.violation(key + "/baseline-nrmse-" + band(e1), c, "NRMSE on the baseline year %.4f of mean usage (limit 0.05); selected %s" % (e1, getattr(m, "best_combination", "?")))
    if not (e2 <= 0.05):
        # a second year from another climate (its days leave the baseline's temperature range) is its own class of key
        climate = "/other-climate" if (fam == "billing" and tuple(c.get("year2", (0.0, 0.0))) != (0.0, 0.0) and outside > 0) else ""
        rec.violation(key + "/other-year-nrmse-" + band(e2) + climate, c, "NRMSE on the other weather year %.4f of mean usage (limit 0.05); selected %s" % (e2, getattr(m, "best_combination", "?")))
    tot = float(np.sum(y))
    for p, truth_tot, which in ((p1, tot, "baseline"), (p2, float(np.sum(y2)), "other")):
        if c["hs"] == 0:
            h = float(np.nansum(p["heating_load"].values.astype(float)))
            if h > 0.05 * truth_tot:
                rec.violation(key + "/spurious-heating", c, "heating load %.1f is %.3f of usage on the %s year although the generator has none" % (h, h / truth_tot, which))
        if c["cs"] == 0:
            cl = float(np.nansum(p["cooling_load"].values.astype(float)))
            if cl > 0.05 * truth_tot:
                rec.violation(key + "/spurious-cooling", c, "cooling load %.1f is %.3f of usage on the %s year although the generator has none" % (cl, cl / truth_tot, which))
    rec.note("nrmse<0.5%" if max(e1, e2) < 0.005 else "nrmse<2%" if max(e1, e2) < 0.02 else "nrmse<5%" if max(e1, e2) <= 0.05 else "nrmse>5%")
    rec.case(c, c["shape"] != "flat", cls + ["split=%d" % int("__" in str(getattr(m, "best_combination", "")))])


def shards(tier, seed):
    q = tier == "quick"
    out = []
    for i in range(8):
        out.append({"family": "daily", "n": 5 if q else 60, "seed": mix(seed, ID, "daily", i)})
    for i in range(4):
        out.append({"family": "daily_legacy", "n": 45 if q else 400, "seed": mix(seed, ID, "legacy", i)})
    for i in range(4):
        out.append({"family": "billing", "n": 10 if q else 120, "seed": mix(seed, ID, "billing", i)})
    return out


def run_shard(spec, rec):
    explore(cases(family=spec["family"]), judge, rec, max_examples=spec["n"], seed=spec["seed"], shrink=False)


def replay(case, rec):
    try:
        judge(case, rec)
    except Exception as e:  # assume(False) outside Hypothesis
        if type(e).__name__ not in ("UnsatisfiedAssumption",):
            raise
