"""C03 — fitting is reproducible: same data and settings give the same model."""
import concurrent.futures as cf
import json
import os
import subprocess
import sys

from hypothesis import strategies as st

from ..env import VERIF
from ..hyp import explore, mix

ID = "C03"
WARM = ["daily", "hourly"]
RULE = (
    "A batch of meters (daily legacy / legacy developer splits / current, billing, hourly with an explicit seed under three profiles, "
    "CalTRACK hourly on a 120-day baseline) and generated schedules: a permutation of the batch, a split over 1-16 subprocesses, "
    "unrelated warm-up actions before and between fits (another fit, re-seeding and consuming numpy's global RNG, constructing "
    "settings, a validation failure), repeated predictions, fit() called again on the model object of an earlier meter with the same profile, every model serialised again at the end of its process, and a per-subprocess environment (PYTHONHASHSEED in {0, 1, random}, "
    "OMP/MKL/OPENBLAS_NUM_THREADS in {unset, 1, 4}). Oracle: the sha-256 of to_json() and of the raw bytes of predict(fixed "
    "reporting set) of every execution equals the digests obtained for that meter in a fresh single subprocess that does nothing "
    "else. Non-trivial: a comparison made in a different process, or after at least one intervening fit of another meter, than its "
    "reference (every comparison here). Distinct = distinct (meter, schedule position, environment) comparisons."
)
ASSUMPTIONS = [
    "reproducibility across machines / BLAS builds is out of reach of one sandbox",
    "the harness owns the schedule at process granularity (order, pool size, environment, warm/cold), not OS-level interleavings inside BLAS or numba",
]

U = {"base": 20.0, "hs": 1.2, "hb": 52.0, "cs": 0.8, "cb": 68.0}


def meter(family, profile, seed, n=365, **kw):
    b = {"family": family, "profile": profile, "tz": "America/Chicago", "start_day": 0, "n": n, "noise_seed": seed, "usage": U, "noise": 0.08,
         "weekend_shift": 0.25 if seed % 2 else 0.0, "season_shift": 0.2 if seed % 3 == 0 else 0.0, "south": False, "electric": True}
    b.update(kw)
    return b


def batch(tier):
    ms = {
        "daily-legacy-1": meter("daily", "legacy", 1),
        "daily-splits-2": meter("daily", "legacy_dev_splits", 2),
        "billing-3": meter("billing", "billing", 3),
        "hourly-4": meter("hourly", "hourly_default", 4, ghi=False),
        "hourly-solar-5": meter("hourly", "hourly_solar_obj", 5, ghi=True),
        "caltrack-6": meter("caltrack", "caltrack", 6, n=120),
        "daily-current-7": meter("daily", "current", 7),
        "hourly-adaptive-8": meter("hourly", "hourly_adaptive", 8, ghi=False),
        # settings that share cached/global state with their neighbours: another initial step for the same optimiser, seed 0
        "daily-step-9": meter("daily", "legacy_dev_step", 9),
        "hourly-seed0-10": meter("hourly", "hourly_seed0", 10, ghi=False),
        # several supplemental columns: their order must not follow the per-process string hash
        "hourly-suppl-11": meter("hourly", "hourly_supplemental", 11, ghi=False),
        # gaps next to the ends of the series (filled from lagged neighbours that do not exist)
        "hourly-edgegaps-12": meter("hourly", "hourly_default", 12, ghi=False, edge_gaps=True),
        # same profiles as meters 4 and 1: one model object may be re-used for them (fit called again on the same object)
        "hourly-13": meter("hourly", "hourly_default", 13, ghi=False, weekend_shift=0.3),
        "daily-legacy-14": meter("daily", "legacy", 14, noise=0.3),
        # the seed is part of the settings: the same baselines as meters 4 and 13 under another seed, and coordinate descent
        # with random selection (its draws must come from the seed, not from whatever the global generator holds)
        "hourly-4-seed1234": meter("hourly", "hourly_seed_alt", 4, ghi=False),
        "hourly-randomsel-15": meter("hourly", "hourly_random_sel", 15, ghi=False),
        "hourly-13-randomsel-seed1234": meter("hourly", "hourly_random_sel_alt", 13, ghi=False, weekend_shift=0.3),
        # (for these two baselines the clustering does depend on the seed: measured, seed 0 / seed 1234 give other labels than seed 7 / 5)
        # a baseline dated after today's date (forecast or simulated data): nothing of the clock may end up in the model
        "daily-future-16": meter("daily", "legacy", 16, start_day=4500),
        "hourly-4-seed0": meter("hourly", "hourly_seed0", 4, ghi=False),
        "hourly-15-seed1234": meter("hourly", "hourly_seed_alt", 15, ghi=False),
    }
    if tier == "thorough":
        ms["hourly-supplcat-25"] = meter("hourly", "hourly_supplemental_cat", 25, ghi=False)
        for i in range(11, 17):
            ms["daily-legacy-%d" % i] = meter("daily", ["legacy", "legacy_dev_smooth", "legacy_dev_aic"][i % 3], i)
        for i in range(17, 23):
            ms["hourly-%d" % i] = meter("hourly", ["hourly_default", "hourly_robust", "hourly_clusters"][i % 3], i, ghi=False)
        ms["billing-23"] = meter("billing", "billing_dev_splits", 23)
        ms["caltrack-24"] = meter("caltrack", "caltrack", 24, n=120)
    return ms


def run_worker(actions, envspec):
    env = dict(os.environ)
    env["PYTHONPATH"] = os.pathsep.join([os.environ.get("VERIF_REPO", "/repo"), VERIF, os.path.join(VERIF, ".deps")])
    hs = envspec.get("hashseed", "0")
    if hs == "random":
        env.pop("PYTHONHASHSEED", None)
        env["PYTHONHASHSEED"] = "random"
    else:
        env["PYTHONHASHSEED"] = str(hs)
    th = envspec.get("threads", "unset")
    for k in ("OMP_NUM_THREADS", "MKL_NUM_THREADS", "OPENBLAS_NUM_THREADS"):
        env.pop(k, None)
        if th != "unset":
            env[k] = str(th)
    job = {"actions": actions, "threads": "schedule"}
    r = subprocess.run([sys.executable, "-m", "vf.c03_worker", json.dumps(job)], cwd=VERIF, env=env, capture_output=True, text=True)
    for line in r.stdout.splitlines():
        if line.startswith("C03RESULT "):
            return json.loads(line[len("C03RESULT "):])
    raise RuntimeError("worker failed: %s" % (r.stderr[-1500:] or r.stdout[-500:]))


_REF = {}


def references(names, meters):
    todo = [n for n in names if n not in _REF]
    if todo:
        with cf.ThreadPoolExecutor(max_workers=8) as ex:
            futs = {n: ex.submit(run_worker, [["fit", meters[n], n]], {"hashseed": "0", "threads": "unset"}) for n in todo}
            for n, f in futs.items():
                _REF[n] = f.result()[0]
    return {n: _REF[n] for n in names}


@st.composite
def schedules(draw, names):
    names = list(names)
    perm = draw(st.permutations(names))
    k = draw(st.sampled_from([1, 2, 4, 8, 16]))
    chunks = [perm[i::k] for i in range(k)]
    chunks = [c for c in chunks if c]
    procs = []
    for ch in chunks:
        acts = []
        for n in ch:
            for _ in range(draw(st.integers(0, 2))):
                j = draw(st.sampled_from(["rng", "settings", "validation_error", "other_fit"]))
                acts.append(["junk", j, draw(st.integers(0, 100))])
            acts.append(["fit", n, draw(st.booleans())])  # True: re-use the model object of an earlier meter with the same profile
            if draw(st.booleans()):
                acts.append(["repredict", n])
        if len(ch) > 1 and draw(st.booleans()):
            acts.append(["fit", ch[0], draw(st.booleans())])  # the same meter again in the warm process
        procs.append({"actions": acts, "env": {"hashseed": draw(st.sampled_from(["0", "1", "random", "12345"])),
                                               "threads": draw(st.sampled_from(["unset", "1", "4"]))}})
    return {"kind": "schedule", "procs": procs}


def make_judge(meters):
    def judge(c, rec):
        names = sorted({a[1] for p in c["procs"] for a in p["actions"] if a[0] in ("fit",)})
        ref = references(names, meters)
        with cf.ThreadPoolExecutor(max_workers=8) as ex:
            futs = []
            for p in c["procs"]:
                acts = [([a[0], meters[a[1]], a[1], bool(a[2]) if len(a) > 2 else False] if a[0] == "fit" else a) for a in p["actions"]]
                futs.append(ex.submit(run_worker, acts, p["env"]))
            results = [f.result() for f in futs]
        ncmp = 0
        for p, res in zip(c["procs"], results):
            seen_fits = 0
            for r in res:
                n = r["meter"]
                fam = meters[n]["family"]
                envtag = "hashseed=%s/threads=%s" % (p["env"]["hashseed"], p["env"]["threads"])
                # which dimensions differ from the reference environment (hash seed 0, thread variables unset)
                dims = "+".join(x for x, on in (("hashseed", p["env"]["hashseed"] != "0"), ("threads", p["env"]["threads"] != "unset")) if on) or "same-env"
                if r.get("error"):
                    if not r.get("lib") or ref[n].get("error"):
                        raise RuntimeError("C03 worker could not fit %s: %s (reference: %s)" % (n, r["error"], ref[n].get("error")))
                    rec.violation("%s/fit-raises-in-schedule/%s" % (fam, dims), c, "meter %s: %s in this schedule (%s); the fresh-process reference fits" % (n, r["error"], envtag))
                    continue
                if r.get("at_end"):
                    if r["model"] != ref[n]["model"]:
                        rec.violation("%s/model-at-end-digest-differs/%s" % (fam, dims), c,
                                      "meter %s: to_json() written after the other fits of its process differs from the fresh-process reference (%s)" % (n, envtag))
                    continue
                if r["model"] is not None:
                    seen_fits += 1
                    if r["model"] != ref[n]["model"]:
                        rec.violation("%s/model-digest-differs/%s" % (fam, dims), c,
                                      "meter %s: to_json() digest differs from the fresh-process reference (%s, fit #%d in its process)" % (n, envtag, seen_fits))
                if r["prediction"] != ref[n]["prediction"]:
                    rec.violation("%s/prediction-digest-differs/%s" % (fam, dims), c,
                                  "meter %s: prediction digest differs from the fresh-process reference (%s)" % (n, envtag))
                ncmp += 1
                rec.case({"meter": n, "proc": c["procs"].index(p), "pos": seen_fits, "env": p["env"], "sched": len(c["procs"])}, True,
                         ["family=" + fam, "workers=%d" % len(c["procs"]), "hashseed=" + p["env"]["hashseed"], "threads=" + p["env"]["threads"]])
    return judge


def shards(tier, seed):
    return [{"tier": tier, "n": 3 if tier == "quick" else 12, "seed": mix(seed, ID, 0)}]


def fixed_schedules():
    """Schedules every run executes: the meters that share a baseline but differ in a setting (the seed, the selection rule) are fitted
    one after the other in one process, in both orders - a result may depend on its own settings only."""
    same = ["hourly-4", "hourly-4-seed1234", "hourly-4-seed0", "hourly-13", "hourly-13-randomsel-seed1234", "hourly-randomsel-15", "hourly-15-seed1234"]
    env = {"hashseed": "0", "threads": "unset"}
    fwd = [["fit", n, False] for n in same] + [["junk", "rng", 5], ["fit", "hourly-4", False], ["fit", "hourly-randomsel-15", False]]
    rev = [["junk", "rng", 9]] + [["fit", n, False] for n in reversed(same)] + [["fit", "hourly-13-randomsel-seed1234", False]]
    daily = [["fit", "daily-legacy-1", False], ["fit", "daily-step-9", False], ["fit", "daily-legacy-14", True], ["fit", "daily-legacy-1", False]]
    return [{"kind": "schedule", "procs": [{"actions": fwd, "env": env}, {"actions": rev, "env": env}, {"actions": daily, "env": env}]}]


def run_shard(spec, rec):
    from ..hyp import run_judge

    meters = batch(spec["tier"])
    judge = make_judge(meters)
    for sch in fixed_schedules():
        run_judge(judge, sch, rec)
    explore(schedules(sorted(meters)), judge, rec, max_examples=spec["n"], seed=spec["seed"], shrink=False)


def replay(case, rec):
    meters = batch("thorough")
    make_judge(meters)(case, rec)
