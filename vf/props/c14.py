"""C14 — approved-method settings are locked unless developer mode is explicit."""
import contextlib
import copy
import io
import json
import os

from ..hyp import run_judge
from ..ref import settings_tree as stree

ID = "C14"
WARM = []
RULE = (
    "Exhaustive walk over every field at every nesting level of DailySettings, DailyLegacySettings, BillingSettings and the "
    "three hourly settings classes. golden: field defaults, developer flags, bounds and enum members, and the settings the "
    "model constructors use without arguments, must equal the committed golden table. lock: every developer field x every "
    "valid alternative value x key spelling (lower, UPPER, padded) x nested value given as dict or as settings object x "
    "companion input (none, silent_developer_mode, developer_mode=False, a changed non-developer setting) x route (settings "
    "class, model constructor): rejected without developer_mode=True, accepted and recorded with it. nondev: season/weekday "
    "maps and uncertainty level accepted without developer mode when valid. invalid: out-of-range numbers, unknown enum "
    "members, wrong types, malformed lists and cross-field contradictions rejected with and without developer mode. "
    "fidelity: to_dict()['settings'] of a model equals model_dump() of the settings it was built with and from_dict "
    "reproduces them. Non-trivial: every (class, field, alternative, spelling, form, companion, route) tuple other than the "
    "golden comparison itself. Distinct = distinct tuples."
)
ASSUMPTIONS = [
    "vf/ref/approved_settings.json is the human-reviewed table of approved constants (transcribed from OpenDSM 1.0.0)",
    "billing's stored developer_mode=True marker is the one documented exception in the fidelity clause",
    "hourly settings carry no developer lock in this version; they are judged on defaults, validation and fidelity only",
]

GOLDEN_PATH = os.path.join(os.path.dirname(os.path.dirname(os.path.abspath(__file__))), "ref", "approved_settings.json")
DAILY_CLASSES = ["DailySettings", "DailyLegacySettings", "BillingSettings"]
HOURLY_CLASSES = ["BaseHourlySettings", "HourlySolarSettings", "HourlyNonSolarSettings"]


def golden():
    with open(GOLDEN_PATH) as fh:
        return json.load(fh)


def nest(path, val):
    d = val
    for k in reversed(path):
        d = {k: d}
    return d


def spell(path, how):
    f = {"lower": lambda k: k, "UPPER": lambda k: k.upper(), "pad": lambda k: "  " + k + " ", "Mixed": lambda k: k.title()}[how]
    return [f(k) for k in path]


def deep_merge(a, b):
    out = dict(a)
    for k, v in b.items():
        if k in out and isinstance(out[k], dict) and isinstance(v, dict):
            out[k] = deep_merge(out[k], v)
        else:
            out[k] = v
    return out


def valid_alternatives(rec, cls_name):
    """Alternative values that satisfy the documented ranges and do not touch a cross-field rule."""
    d = rec["default"]
    name = rec["path"][-1]
    kind = rec["kind"]
    out = []
    if name in ("developer_mode", "silent_developer_mode", "options"):
        return []
    if kind == "enum":
        vals = [v for v in (rec["enum"] or []) if v != d]
        if name in ("algorithm_choice", "initial_guess_algorithm_choice"):
            vals = [v for v in vals if v.startswith("nlopt")][:3] + [v for v in vals if v.startswith("scipy")][:2]
        if name == "alpha_final":
            vals = []
        out += vals
    if kind == "bool":
        out.append(not d)
    if kind in ("int", "float") and d is not None and name not in ("final_bounds_scalar", "initial_step_percentage", "alpha_final"):
        b = rec["bounds"] or {}
        lo = b.get("ge", b.get("gt"))
        hi = b.get("le", b.get("lt"))
        cands = [d + 1, d - 1, d * 2, d / 2] if kind == "float" else [d + 1, d - 1, d * 2]
        for c in cands:
            if c == d:
                continue
            if lo is not None and c < lo or (b.get("gt") is not None and c <= b["gt"]):
                continue
            if hi is not None and c > hi or (b.get("lt") is not None and c >= b["lt"]):
                continue
            out.append(int(c) if kind == "int" else float(c))
    if name == "alpha_final":
        out += [1.0, -5.0] if d != 1.0 else [0.5]
        if d != "adaptive":
            out.append("adaptive")
    if name == "final_bounds_scalar":
        out += [2.0, 0.5]
    if name == "initial_step_percentage":
        out += [0.2, 0.5]
    if name == "reduce_splits_num_std":
        out += [[2.0, 1.0]]
    if name in ("january", "july", "october"):
        out += [v for v in ("summer", "shoulder", "winter") if v != d]
    if name in ("monday", "saturday"):
        out += [v for v in ("weekday", "weekend") if v != d]
    # de-duplicate, keep order
    seen, res = set(), []
    for v in out:
        k = json.dumps(v)
        if k not in seen:
            seen.add(k)
            res.append(v)
    return res[:5]


def invalid_alternatives(rec):
    """Values outside the documented domain of the field."""
    name = rec["path"][-1]
    kind = rec["kind"]
    b = rec["bounds"] or {}
    out = []
    if name in ("developer_mode", "silent_developer_mode"):
        return ["maybe"]
    if kind == "enum":
        out += ["not_a_member", 7.5 if name != "alpha_final" else "adaptivex"]
    if kind == "bool":
        out += ["maybe", [True]]
    if kind in ("int", "float"):
        if "ge" in b:
            out.append(b["ge"] - 1)
        if "gt" in b:
            out.append(b["gt"])
        if "le" in b:
            out.append(b["le"] + 1)
        if "lt" in b:
            out.append(b["lt"])
        out += ["abc", [1, 2]]
        if kind == "int":
            out.append(2.5)
    if name == "reduce_splits_num_std":
        out += [[1.0], [1.0, 2.0, 3.0], [0.0, 1.0], [-1.0, 1.0], "abc"]
    if name in ("january", "december"):
        out += ["autumn", 3]
    if name in ("monday", "sunday"):
        out += ["holiday"]
    if name == "final_bounds_scalar":
        out += [0.0, -1.0]
    if name == "initial_step_percentage":
        out += [0.0, 0.6, -0.1]
    if name == "alpha_final":
        out += [3.0, -1000.0]
    return out


CROSS_FIELD_INVALID = [
    {"alpha_final": None},  # alpha_final_type stays 'last'
    {"final_bounds_scalar": None},  # alpha_final_type stays 'last'
    {"alpha_final_type": None},  # final_bounds_scalar stays set
    {"initial_step_percentage": None},  # nlopt algorithm needs a step
    {"alpha_final_type": None, "alpha_final": None, "final_bounds_scalar": 1.0},
    # a value outside its range is rejected in every state of the fields next to it
    {"alpha_final_type": None, "final_bounds_scalar": None, "alpha_final": 2.5},
    {"alpha_final_type": None, "final_bounds_scalar": None, "alpha_final": -150.0},
    {"alpha_final_type": "all", "alpha_final": 5.0},
]
CROSS_FIELD_VALID = [
    {"alpha_final_type": None, "final_bounds_scalar": None},
    {"alpha_final_type": None, "final_bounds_scalar": None, "alpha_final": None},
    {"alpha_final_type": "all", "alpha_final": 1.5},
]

COMPANIONS = {
    "none": {},
    "silent": {"silent_developer_mode": True},
    "dev_false": {"developer_mode": False},
    "alpha": {"uncertainty_alpha": 0.2},
    "season": {"season": {"march": "winter"}},
    "SILENT_UPPER": {"SILENT_DEVELOPER_MODE": True, "DEVELOPER_MODE": False},
}


def classes():
    return stree._classes()


def construct(route, cls_name, kwargs):
    """Returns ('ok', settings) or ('rej', exception). Only pydantic validation errors count as a clean rejection."""
    import pydantic
    from opendsm import eemeter as em

    buf = io.StringIO()
    try:
        with contextlib.redirect_stdout(buf):
            if route == "class":
                s = classes()[cls_name](**copy.deepcopy(kwargs))
            elif route == "model":
                if cls_name == "DailySettings":
                    s = em.DailyModel(settings=copy.deepcopy(kwargs)).settings
                elif cls_name == "DailyLegacySettings":
                    s = em.DailyModel(model="legacy", settings=copy.deepcopy(kwargs)).settings
                elif cls_name == "BillingSettings":
                    s = em.BillingModel(settings=copy.deepcopy(kwargs)).settings
                else:
                    s = em.HourlyModel(settings=copy.deepcopy(kwargs)).settings
            elif route == "model_features":
                # hourly only: the dict also selects the settings class through its train_features entry
                kw = copy.deepcopy(kwargs)
                kw["train_features"] = ["temperature", "ghi"] if "NonSolar" not in cls_name and "Solar" in cls_name else ["temperature"]
                s = em.HourlyModel(settings=kw).settings
        return "ok", s
    except pydantic.ValidationError as e:
        return "rej", e
    except (TypeError, ValueError) as e:
        return "rej", e


def get_path(s, path):
    o = s
    for k in path:
        o = getattr(o, k)
    return stree.jsonify(o)


def objectify(cls_name, path, val):
    """Give the innermost nested value as a settings object instead of a dict (only for nested fields)."""
    if len(path) < 2:
        return None
    cls = classes()[cls_name]
    sub = stree._sub_model(cls.model_fields[path[0]].annotation)
    if sub is None or len(path) != 2:
        return None
    return sub, {path[1]: val}


# ------------------------------------------------------------------ judges
def judge_golden(c, rec):
    g = golden()
    cur = stree.current_table()
    cls = c["cls"]
    a = {json.dumps(r["path"]): r for r in g["fields"].get(cls, [])}
    b = {json.dumps(r["path"]): r for r in cur.get(cls, [])}
    for k in sorted(set(a) | set(b)):
        if k not in b:
            rec.violation("golden/field-removed", c, "%s %s is gone" % (cls, k))
        elif k not in a:
            rec.violation("golden/field-added", c, "%s %s is not in the approved table" % (cls, k))
        else:
            for attr in ("default", "developer", "bounds", "enum", "optional", "excluded"):
                if a[k].get(attr) != b[k].get(attr):
                    rec.violation("golden/%s-changed" % attr, c, "%s %s: %s is %r, approved %r" % (cls, k, attr, b[k].get(attr), a[k].get(attr)))
    rec.note("golden_fields_compared", len(a))
    rec.case(c, True, ["sub=golden"])


def judge_ctor(c, rec):
    g = golden()["constructor_defaults"]
    cur = stree.constructor_defaults()
    for name in sorted(set(g) | set(cur)):
        if g.get(name) != cur.get(name):
            diff = []
            if isinstance(g.get(name), dict) and isinstance(cur.get(name), dict):
                fa, fb = _flat(g[name]), _flat(cur[name])
                diff = ["%s: %r (approved %r)" % (k, fb.get(k), fa.get(k)) for k in sorted(set(fa) | set(fb)) if fa.get(k) != fb.get(k)]
            rec.violation("ctor-defaults/" + name, c, "constructor defaults differ from the approved table: %s" % "; ".join(diff[:5]))
    # a no-argument constructor must also equal the class defaults of its own settings class
    rec.case(c, True, ["sub=ctor"])


def _flat(d, pre=""):
    out = {}
    for k, v in d.items():
        if isinstance(v, dict):
            out.update(_flat(v, pre + k + "."))
        else:
            out[pre + k] = v
    return out


def judge_lock(c, rec):
    """One (class, field, alternative) with all spellings/forms/companions/routes."""
    cls_name, path, alt, dev = c["cls"], c["path"], c["alt"], c["developer"]
    key = "lock" if dev else "nondev"
    n = 0
    for how in ("lower", "UPPER", "pad"):
        p = spell(path, how)
        forms = [("dict", nest(p, alt))]
        ob = objectify(cls_name, path, alt)
        if ob is not None and how == "lower":
            sub, kw = ob
            st, so = construct_sub(sub, kw, dev_obj=False)
            if st == "ok":
                forms.append(("object", {path[0]: so}))
        for form, payload in forms:
            for comp_name, comp in COMPANIONS.items():
                if comp_name == "alpha" and path == ["uncertainty_alpha"]:
                    continue
                if comp_name == "season" and path[0] == "season":
                    continue
                kwargs = deep_merge(comp, payload) if form == "dict" else dict(comp, **payload)
                for route in ("class", "model"):
                    if route == "model" and cls_name == "BillingSettings":
                        continue  # BillingModel builds legacy settings; covered under DailyLegacySettings
                    n += 1
                    tag = "%s/%s/%s/%s" % (how, form, comp_name, route)
                    st, s = construct(route, cls_name, kwargs)
                    if dev:
                        if st == "ok":
                            rec.violation("lock/accepted-without-developer-mode/" + ".".join(path), c,
                                          "%s %s=%r accepted without developer_mode (%s); recorded developer_mode=%r" % (
                                              cls_name, ".".join(path), alt, tag, getattr(s, "developer_mode", None)))
                    else:
                        if st != "ok":
                            rec.violation("nondev/rejected/" + ".".join(path), c, "%s %s=%r rejected without developer mode (%s): %s" % (
                                cls_name, ".".join(path), alt, tag, str(s)[:120]))
                        elif get_path(s, path) != alt:
                            rec.violation("nondev/not-recorded/" + ".".join(path), c, "%s %s=%r recorded as %r (%s)" % (
                                cls_name, ".".join(path), alt, get_path(s, path), tag))
                    # with developer mode switched on the change is accepted and recorded
                    kw2 = deep_merge(kwargs, {"developer_mode": True}) if form == "dict" else dict(kwargs, developer_mode=True)
                    for k in list(kw2):
                        if k.strip().lower() == "developer_mode" and k != "developer_mode":
                            del kw2[k]
                    st2, s2 = construct(route, cls_name, kw2)
                    if st2 != "ok":
                        rec.violation(key + "/rejected-with-developer-mode/" + ".".join(path), c, "%s %s=%r rejected although developer_mode=True (%s): %s" % (
                            cls_name, ".".join(path), alt, tag, str(s2)[:160]))
                    else:
                        got = get_path(s2, path)
                        if got != alt:
                            rec.violation(key + "/not-recorded/" + ".".join(path), c, "%s %s=%r recorded as %r (%s)" % (cls_name, ".".join(path), alt, got, tag))
                        if s2.model_dump().get("developer_mode") is not True:
                            rec.violation(key + "/developer-mode-not-recorded", c, "model_dump() does not record developer_mode=True (%s)" % tag)
    rec.note("constructor_calls", 2 * n)
    rec.case(c, True, ["sub=" + key, "cls=" + cls_name])


def construct_sub(sub, kw, dev_obj=False):
    import pydantic

    try:
        return "ok", sub(**kw)
    except pydantic.ValidationError as e:
        return "rej", e


def judge_invalid(c, rec):
    cls_name, path, alt = c["cls"], c["path"], c["alt"]
    for devmode in (False, True):
        if devmode and path[-1] in ("developer_mode", "silent_developer_mode"):
            continue
        for route in ("class", "model", "model_features"):
            if route == "model" and cls_name == "BillingSettings":
                continue
            if route == "model_features" and (cls_name in DAILY_CLASSES or devmode or path[0] == "train_features"):
                continue
            kwargs = nest(path, alt)
            if devmode and cls_name in DAILY_CLASSES:
                kwargs = deep_merge(kwargs, {"developer_mode": True, "silent_developer_mode": True})
            elif devmode:
                continue
            # an invalid value stays invalid whatever valid choices the other fields carry (the final refit switched off, ...)
            contexts = [{}]
            if devmode and cls_name in DAILY_CLASSES and route == "class":
                contexts += [ctx for ctx in CROSS_FIELD_VALID if path[0] not in ctx]
            for ctx in contexts:
                st, s = construct(route, cls_name, deep_merge(copy.deepcopy(ctx), kwargs))
                if st == "ok":
                    got = get_path(s, path)
                    rec.violation("invalid/accepted/" + ".".join(path) + ("/in-context" if ctx else ""), c, "%s %s=%r accepted (developer_mode=%s, route %s, other fields %r), recorded %r" % (
                        cls_name, ".".join(path), alt, devmode, route, ctx, got))
                    break
    rec.case(c, True, ["sub=invalid", "cls=" + cls_name])


def judge_cross(c, rec):
    cls_name = c["cls"]
    kwargs = dict(c["kwargs"], developer_mode=True, silent_developer_mode=True)
    st, s = construct("class", cls_name, kwargs)
    if c["valid"] and st != "ok":
        rec.violation("cross/valid-rejected", c, "%s %r rejected: %s" % (cls_name, c["kwargs"], str(s)[:160]))
    if not c["valid"] and st == "ok":
        rec.violation("cross/invalid-accepted", c, "%s %r accepted" % (cls_name, c["kwargs"]))
    rec.case(c, True, ["sub=cross"])


def judge_hourly(c, rec):
    """Hourly: valid alternatives accepted and recorded (dict, any spelling; model route)."""
    cls_name, path, alt = c["cls"], c["path"], c["alt"]
    for how in ("lower", "UPPER", "pad"):
        for route in ("class", "model", "model_features"):
            if route == "model_features" and (how != "lower" or path[0].strip().lower() == "train_features"):
                continue
            kwargs = nest(spell(path, how), alt)
            st, s = construct(route, cls_name if route != "model" else "BaseHourlySettings", kwargs)
            if st != "ok":
                rec.violation("hourly/valid-rejected/" + ".".join(path), c, "%s=%r rejected (%s, %s): %s" % (".".join(path), alt, how, route, str(s)[:120]))
            elif get_path(s, path) != alt:
                rec.violation("hourly/not-recorded/" + ".".join(path), c, "%s=%r recorded as %r" % (".".join(path), alt, get_path(s, path)))
    rec.case(c, True, ["sub=hourly-valid", "cls=" + cls_name])


def judge_fidelity(c, rec):
    """Stored settings are the ones the model was built with."""
    import numpy as np
    import pandas as pd
    from opendsm import eemeter as em

    from ..gen import params as gp
    from ..gen import synth

    fam = c["family"]
    buf = io.StringIO()
    with contextlib.redirect_stdout(buf):
        if fam in ("daily", "legacy", "billing"):
            kw = copy.deepcopy(c["settings"])
            if fam == "daily":
                m = em.DailyModel(settings=kw)
            elif fam == "legacy":
                m = em.DailyModel(model="legacy", settings=kw)
            else:
                m = em.BillingModel(settings=kw)
            built = stree.jsonify(m.settings.model_dump())
            df = synth.daily_frame(n=365, noise_seed=3)
            if fam == "billing":
                data = em.BillingBaselineData(df, is_electricity_data=True)
            else:
                data = em.DailyBaselineData(df, is_electricity_data=True)
            if fam == "daily" and not kw:
                pass
            m.fit(data, ignore_disqualification=True)
            doc = json.loads(m.to_json())
            stored = doc["settings"]
            exp = dict(built)
            if fam == "billing":
                exp["developer_mode"] = True
            if stored != exp:
                fa, fb = _flat(exp), _flat(stored)
                diff = ["%s: stored %r, built with %r" % (k, fb.get(k), fa.get(k)) for k in sorted(set(fa) | set(fb)) if fa.get(k) != fb.get(k)]
                rec.violation("fidelity/stored-differs/" + fam, c, "; ".join(diff[:4]))
            cls = em.BillingModel if fam == "billing" else em.DailyModel
            try:
                m2 = cls.from_dict(copy.deepcopy(doc))
                back = stree.jsonify(m2.settings.model_dump())
                exp2 = dict(stored)
                if back != exp2:
                    fa, fb = _flat(exp2), _flat(back)
                    diff = ["%s: reloaded %r, stored %r" % (k, fb.get(k), fa.get(k)) for k in sorted(set(fa) | set(fb)) if fa.get(k) != fb.get(k)]
                    rec.violation("fidelity/reload-differs/" + fam, c, "; ".join(diff[:4]))
            except Exception as e:
                rec.violation("fidelity/reload-raises/%s/%s" % (fam, type(e).__name__), c, str(e)[:200])
        else:
            kw = copy.deepcopy(c["settings"])
            m = em.HourlyModel(settings=kw) if kw else em.HourlyModel()
            built = stree.jsonify(m.settings.model_dump())
            df = synth.hourly_frame(days=120, noise_seed=5, ghi=c.get("ghi", False))
            data = em.HourlyBaselineData(df, is_electricity_data=True)
            m.fit(data, ignore_disqualification=True)
            doc = json.loads(m.to_json())
            stored = doc["settings"]
            exp = dict(built)
            # default features are resolved at fit time
            feats = ["temperature", "ghi"] if c.get("ghi") else ["temperature"]
            if exp.get("train_features") is None:
                exp["train_features"] = feats
            if stored != exp:
                fa, fb = _flat(exp), _flat(stored)
                diff = ["%s: stored %r, built with %r" % (k, fb.get(k), fa.get(k)) for k in sorted(set(fa) | set(fb)) if fa.get(k) != fb.get(k)]
                rec.violation("fidelity/stored-differs/hourly", c, "; ".join(diff[:4]))
            try:
                m2 = em.HourlyModel.from_dict(copy.deepcopy(doc))
                back = stree.jsonify(m2.settings.model_dump())
                if back != stored:
                    fa, fb = _flat(stored), _flat(back)
                    diff = ["%s: reloaded %r, stored %r" % (k, fb.get(k), fa.get(k)) for k in sorted(set(fa) | set(fb)) if fa.get(k) != fb.get(k)]
                    rec.violation("fidelity/reload-differs/hourly", c, "; ".join(diff[:4]))
            except Exception as e:
                rec.violation("fidelity/reload-raises/hourly/%s" % type(e).__name__, c, str(e)[:200])
    rec.case(c, True, ["sub=fidelity", "family=" + fam])


def judge_object(c, rec):
    """A settings *object* handed to a model constructor: it is either refused, or the model ends up with exactly the approved constants
    of its own family (plus the non-developer choices the object carries) - never with another family's developer-only constants."""
    from opendsm import eemeter as em
    from opendsm.eemeter.models.daily.utilities import settings as ds

    from opendsm.eemeter.models.billing.settings import BillingSettings

    classes = {"DailySettings": ds.DailySettings, "DailyLegacySettings": ds.DailyLegacySettings, "BillingSettings": BillingSettings}
    ctors = {"DailyModel()": lambda st_: em.DailyModel(settings=st_), "DailyModel(model='legacy')": lambda st_: em.DailyModel(model="legacy", settings=st_),
             "BillingModel()": lambda st_: em.BillingModel(settings=st_)}
    g = golden()["constructor_defaults"]
    buf = io.StringIO()
    with contextlib.redirect_stdout(buf):
        try:
            obj = classes[c["cls"]](**copy.deepcopy(c["kwargs"]))
        except Exception as e:
            rec.note("object-not-constructible:" + type(e).__name__)
            rec.case(c, False, ["sub=object"])
            return
        try:
            m = ctors[c["ctor"]](obj)
        except Exception as e:
            rec.expected(type(e).__name__)
            rec.case(c, True, ["sub=object", "outcome=refused"])
            return
    got = stree.jsonify(m.settings.model_dump())
    exp = copy.deepcopy(g[c["ctor"]])
    for k, v in c["kwargs"].items():  # non-developer choices carried by the object
        if isinstance(v, dict):
            exp[k] = dict(exp.get(k, {}), **v)
        else:
            exp[k] = v
    fa, fb = _flat(exp), _flat(got)
    diff = ["%s: %r (approved %r)" % (k, fb.get(k), fa.get(k)) for k in sorted(set(fa) | set(fb)) if fa.get(k) != fb.get(k) and not k.endswith("options")]
    if diff and not got.get("developer_mode"):
        rec.violation("object/other-constants-without-developer-mode", c, "%s given a %s object: %s" % (c["ctor"], c["cls"], "; ".join(diff[:5])))
    rec.case(c, True, ["sub=object", "outcome=accepted"])


JUDGES = {"golden": judge_golden, "ctor": judge_ctor, "lock": judge_lock, "invalid": judge_invalid, "cross": judge_cross,
          "hourly": judge_hourly, "fidelity": judge_fidelity, "object": judge_object}


def judge(c, rec):
    JUDGES[c["kind"]](c, rec)


def all_cases(tier):
    g = golden()["fields"]
    out = []
    for cls in DAILY_CLASSES + HOURLY_CLASSES:
        out.append({"kind": "golden", "cls": cls})
    out.append({"kind": "ctor"})
    for cls in DAILY_CLASSES:
        for r in g[cls]:
            if r["node"]:
                continue
            dev = bool(r["developer"])
            # a field inherits the developer flag of the nested node it lives in? No: the library judges leaves only.
            for alt in valid_alternatives(r, cls):
                out.append({"kind": "lock", "cls": cls, "path": r["path"], "alt": alt, "developer": dev})
            for alt in invalid_alternatives(r):
                out.append({"kind": "invalid", "cls": cls, "path": r["path"], "alt": alt})
        for kw in CROSS_FIELD_INVALID:
            out.append({"kind": "cross", "cls": cls, "kwargs": kw, "valid": False})
        for kw in CROSS_FIELD_VALID:
            out.append({"kind": "cross", "cls": cls, "kwargs": kw, "valid": True})
    skip_h = {"train_features", "supplemental_time_series_columns", "supplemental_categorical_columns", "method", "n_bins",
              "bin_width", "include_edge_bins", "edge_bin_rate", "edge_bin_percent", "adaptive_weights", "adaptive_weight_max_iter",
              "adaptive_weight_tol", "wavelet_name", "wavelet_mode", "n_cluster_lower", "n_cluster_upper"}
    for cls in HOURLY_CLASSES:
        for r in g[cls]:
            if r["node"]:
                continue
            if r["path"][-1] not in skip_h:
                for alt in valid_alternatives(r, cls):
                    out.append({"kind": "hourly", "cls": cls, "path": r["path"], "alt": alt})
            for alt in invalid_alternatives(r):
                if r["path"][-1] in ("train_features", "supplemental_time_series_columns", "supplemental_categorical_columns"):
                    continue
                out.append({"kind": "invalid", "cls": cls, "path": r["path"], "alt": alt})
    fid = [
        {"kind": "fidelity", "family": "legacy", "settings": {}},
        {"kind": "fidelity", "family": "billing", "settings": {}},
        {"kind": "fidelity", "family": "legacy", "settings": {"season": {"march": "winter"}, "uncertainty_alpha": 0.05}},
        {"kind": "fidelity", "family": "legacy", "settings": {"developer_mode": True, "silent_developer_mode": True, "segment_minimum_count": 8,
                                                              "split_selection": {"criteria": "aic", "allow_separate_winter": True}}},
        {"kind": "fidelity", "family": "billing", "settings": {"weekday_weekend": {"friday": "weekend"}}},
        {"kind": "fidelity", "family": "hourly", "settings": {}},
        {"kind": "fidelity", "family": "hourly", "settings": {"seed": 7, "cvrmse_threshold": 2.0, "elasticnet": {"alpha": 0.05}}},
        {"kind": "fidelity", "family": "hourly", "settings": {"seed": 3}, "ghi": True},
        {"kind": "fidelity", "family": "hourly", "settings": {"seed": 7, "train_features": ["temperature"], "cvrmse_threshold": 2.0, "elasticnet": {"alpha": 0.2}}},
    ]
    # values the caller sets to None on purpose (no temperature bins, no edge bins) are settings like any other
    fid += [
        {"kind": "fidelity", "family": "hourly", "settings": {"seed": 5, "temperature_bin": None}},
        {"kind": "fidelity", "family": "hourly", "settings": {"seed": 5, "temperature_bin": None}, "ghi": True},
        {"kind": "fidelity", "family": "hourly", "settings": {"seed": 5, "temperature_bin": {"include_edge_bins": False, "edge_bin_rate": None, "edge_bin_percent": None}}},
        {"kind": "fidelity", "family": "hourly", "settings": {"seed": 5, "supplemental_time_series_columns": None, "cvrmse_threshold": 1.1}},
    ]
    for ctor in ("DailyModel()", "DailyModel(model='legacy')", "BillingModel()"):
        for cls in ("DailySettings", "DailyLegacySettings", "BillingSettings"):
            for kwargs in ({}, {"season": {"march": "winter"}}, {"uncertainty_alpha": 0.2}):
                out.append({"kind": "object", "ctor": ctor, "cls": cls, "kwargs": kwargs})
    if tier == "thorough":
        fid += [
            {"kind": "fidelity", "family": "daily", "settings": {}},
            {"kind": "fidelity", "family": "daily", "settings": {"developer_mode": True, "silent_developer_mode": True, "allow_smooth_model": False,
                                                                 "cvrmse_threshold": 0.5}},
            {"kind": "fidelity", "family": "hourly", "settings": {"seed": 11, "scaling_method": "robustscaler", "temporal_cluster": {"n_cluster_upper": 12}}},
        ]
    else:
        fid.append({"kind": "fidelity", "family": "daily", "settings": {}})
    return out + fid


def shards(tier, seed):
    cases = all_cases(tier)
    heavy = [c for c in cases if c["kind"] == "fidelity"]
    light = [c for c in cases if c["kind"] != "fidelity"]
    out = [{"cases": [h]} for h in heavy]
    k = max(1, 16 - min(len(heavy), 8))
    for i in range(k):
        out.append({"cases": light[i::k]})
    return out


def run_shard(spec, rec):
    for c in spec["cases"]:
        run_judge(judge, c, rec)


def replay(case, rec):
    judge(case, rec)


def exhaustive_note(tier, merged):
    return ("every leaf field of the six settings classes compared with the golden table; every developer and non-developer "
            "field of the daily/legacy/billing trees crossed with its alternative values, 3 key spellings, dict/object form, 6 "
            "companion inputs and 2 routes; invalid-value and cross-field tables enumerated completely; fidelity on a fixed list of fits")
