"""C19 — billing aggregation of predictions conserves totals."""
import math

import numpy as np
import pandas as pd
from hypothesis import strategies as st

from ..gen import params as gp
from ..gen import synth
from ..hyp import explore, mix

ID = "C19"
WARM = ["daily"]
RULE = (
    "Cases: a parameter-built billing model (random shape, split layout, calendar maps) x reporting data (daily-frequency "
    "input or billing reads with daily temperature; any start day; partial first/last months; NaN temperature days and "
    "blocks; with and without usage; 7 zones) x aggregation in {None, 'none' in any case, 'monthly', 'bimonthly'} + generated "
    "invalid arguments. The aggregated frame is compared with an independent aggregation of the daily frame returned by "
    "predict(aggregation=None): one row per calendar period stamped at its local first instant, sums / mean / root-sum-"
    "square per column, span totals equal at every level. Non-trivial: the span has a partial first or last month and at "
    "least one gap (row without prediction) and covers >= 3 calendar months. Distinct = distinct case descriptions."
)
ASSUMPTIONS = [
    "a period with no finite daily value may be reported as 0 or as missing",
    "string arguments outside the documented set must raise ValueError; non-string arguments may raise any exception",
    "zones whose midnight never falls in a DST gap (month starts exist as local midnights)",
]
ZONES = ["UTC", "America/Chicago", "America/Los_Angeles", "Europe/London", "Australia/Sydney", "Asia/Tokyo", "Asia/Kolkata"]


@st.composite
def cases(draw):
    c = {"kind": "agg"}
    c["model"] = draw(gp.doc_case(families=("billing",)))
    c["model"]["tz"] = draw(st.sampled_from(ZONES))
    c["input"] = draw(st.sampled_from(["daily", "daily", "reads"]))
    c["start_day"] = draw(st.integers(0, 900))
    c["n"] = draw(st.one_of(st.integers(20, 120), st.integers(120, 500)))
    c["observed"] = draw(st.booleans())
    c["noise_seed"] = draw(st.integers(0, 2 ** 20))
    c["nan_T"] = draw(st.lists(st.integers(0, 499), max_size=6))
    c["nan_T_block"] = draw(st.one_of(st.none(), st.tuples(st.integers(0, 400), st.integers(2, 45))))
    c["nan_obs"] = draw(st.lists(st.integers(0, 499), max_size=4))
    if c["input"] == "reads":
        c["lengths"] = draw(st.lists(st.integers(26, 34), min_size=2, max_size=16))
    c["invalid"] = draw(st.one_of(st.text(max_size=10), st.sampled_from(["MONTHLY", "Monthly", "bi-monthly", "month", "MS", "2MS", "daily", "", " monthly"]),
                                  st.integers(0, 3), st.booleans()))
    c["none_spelling"] = draw(st.sampled_from(["none", "None", "NONE", "nOnE"]))
    return c


def build(c):
    from opendsm import eemeter as em

    tz = c["model"]["tz"]
    if c["input"] == "reads":
        reads = synth.billing_calendar(c["start_day"], c["lengths"], tz)
        n = int(sum(c["lengths"])) + 1
    else:
        n = c["n"]
    idx = synth.local_midnights(c["start_day"], n, tz)
    rng = np.random.default_rng(c["noise_seed"])
    T = synth.daily_temperature(idx, {}, rng)
    for k in c["nan_T"]:
        if k < n:
            T[k] = np.nan
    if c["nan_T_block"]:
        a, ln = c["nan_T_block"]
        T[a: a + ln] = np.nan
    df = pd.DataFrame({"temperature": T}, index=idx)
    if c["observed"]:
        if c["input"] == "reads":
            obs = pd.Series(np.nan, index=idx)
            vals = np.round(rng.uniform(200, 2000, len(reads) - 1))
            obs[reads[:-1]] = vals
            df["observed"] = obs
        else:
            o = np.round(rng.uniform(5, 60, n))
            for k in c["nan_obs"]:
                if k < n:
                    o[k] = np.nan
            df["observed"] = o
    data = em.BillingReportingData(df, is_electricity_data=True)
    return data


COLS_SUM = ["observed", "predicted", "heating_load", "cooling_load"]


def ref_aggregate(daily, months_per_period, tz):
    """Independent aggregation of the daily frame: dict period_start -> dict of values."""
    idx = daily.index
    ym = idx.year.values * 12 + (idx.month.values - 1)
    first = int(ym.min())
    last = int(ym.max())
    out = []
    p = first
    while p <= last:
        mask = (ym >= p) & (ym < p + months_per_period)
        stamp = pd.Timestamp(year=p // 12, month=p % 12 + 1, day=1, tz=tz)
        row = {"stamp": stamp, "n": int(mask.sum())}
        for col in COLS_SUM:
            if col in daily:
                v = daily[col].values.astype(float)[mask]
                f = np.isfinite(v)
                row[col] = (math.fsum(v[f]), int(f.sum()))
        v = daily["temperature"].values.astype(float)[mask]
        f = np.isfinite(v)
        row["temperature"] = (math.fsum(v[f]) / f.sum() if f.any() else float("nan"), int(f.sum()))
        v = daily["predicted_unc"].values.astype(float)[mask]
        f = np.isfinite(v)
        row["predicted_unc"] = (math.sqrt(math.fsum(v[f] ** 2)), int(f.sum()))
        out.append(row)
        p += months_per_period
    return out


def close(a, b, scale):
    return abs(a - b) <= 1e-9 * max(scale, 1e-300) + 1e-12 * abs(b)


def judge(c, rec):
    m, doc = gp.build_model(c["model"])
    data = build(c)
    tz = c["model"]["tz"]
    daily = m.predict(data)
    cls = ["input=" + c["input"], "observed=%d" % c["observed"], "ncomp=%d" % min(len(c["model"]["submodels"]), 3)]
    if len(daily) == 0:
        rec.case(c, False, cls + ["empty"])
        return
    # None and 'none' in any spelling are the daily frame
    alt = m.predict(data, aggregation=c["none_spelling"])
    if not (alt.index.equals(daily.index) and list(alt.columns) == list(daily.columns)
            and np.array_equal(alt["predicted"].values.astype(float), daily["predicted"].values.astype(float), equal_nan=True)):
        rec.violation("none-spelling", c, "aggregation=%r differs from aggregation=None" % c["none_spelling"])
    # invalid arguments are rejected
    inv = c["invalid"]
    valid = inv is None or (isinstance(inv, str) and (inv.lower() == "none" or inv in ("monthly", "bimonthly")))
    if not valid:
        try:
            if c.get("noise_seed", 0) % 2:
                m.predict(data, inv)
            else:
                m.predict(data, aggregation=inv)
            rec.violation("invalid-accepted", c, "aggregation=%r was accepted" % (inv,))
        except ValueError:
            rec.expected("ValueError")
        except Exception as e:
            if isinstance(inv, str):
                rec.violation("invalid-wrong-exception", c, "aggregation=%r raised %s instead of ValueError" % (inv, type(e).__name__))
            else:
                rec.expected(type(e).__name__)
    scale = float(np.nanmax(np.abs(daily[[x for x in COLS_SUM if x in daily]].values.astype(float)), initial=1.0)) * max(len(daily), 1)
    for agg, k in (("monthly", 1), ("bimonthly", 2)):
        key = agg
        try:
            # the aggregation level is the second parameter of the documented signature: by keyword, or by position
            positional = (c.get("noise_seed", c.get("vseed", 0)) + k) % 3 == 0
            out = m.predict(data, agg) if positional else m.predict(data, aggregation=agg)
        except Exception as e:
            from ..core import exc_bucket, short

            rec.violation("%s/raises/%s" % (key, exc_bucket(e) or type(e).__name__), c, "%s: %s" % (type(e).__name__, short(e, 200)))
            continue
        ref = ref_aggregate(daily, k, tz)
        stamps = pd.DatetimeIndex([r["stamp"] for r in ref])
        if not (len(out) == len(ref) and (out.index == stamps).all()):
            rec.violation(key + "/rows", c, "periods %s, expected %s" % ([str(t) for t in out.index[:4]], [str(t) for t in stamps[:4]]))
            continue
        for col in COLS_SUM + ["temperature", "predicted_unc"]:
            if col == "observed" and "observed" not in daily:
                continue
            if col not in out:
                rec.violation(key + "/column-missing/" + col, c, "columns %s" % list(out.columns))
                continue
            got = out[col].values.astype(float)
            for i, r in enumerate(ref):
                exp, nfin = r[col]
                g = got[i]
                if nfin == 0:
                    if col == "temperature":
                        ok = math.isnan(g)
                    else:
                        ok = math.isnan(g) or g == 0
                else:
                    ok = (not math.isnan(g)) and close(g, exp, scale if col != "temperature" else 200.0)
                if not ok:
                    rec.violation(key + "/value/" + col, c, "period %s: got %r, daily rows give %r (%d finite rows)" % (r["stamp"].date(), g, exp, nfin))
                    break
        # totals over the span
        for col in COLS_SUM:
            if col in out and col in daily:
                a = float(np.nansum(out[col].values.astype(float)))
                b = math.fsum(x for x in daily[col].values.astype(float) if math.isfinite(x))
                if not close(a, b, scale):
                    rec.violation(key + "/total/" + col, c, "aggregated total %r, daily total %r" % (a, b))
    ym = daily.index.year * 12 + daily.index.month
    partial = daily.index[0].day != 1 or (daily.index[-1] + pd.Timedelta(days=1)).day != 1
    gaps = int((~np.isfinite(daily["predicted"].values.astype(float))).sum())
    nt = partial and gaps > 0 and len(set(ym)) >= 3
    rec.case(c, bool(nt), cls + ["partial=%d" % partial, "gaps=%d" % (gaps > 0)])


def shards(tier, seed):
    per = 60 if tier == "quick" else 1500
    return [{"i": i, "n": per, "seed": mix(seed, ID, i)} for i in range(16)]


def run_shard(spec, rec):
    explore(cases(), judge, rec, max_examples=spec["n"], seed=spec["seed"], shrink=True)


def replay(case, rec):
    judge(case, rec)
