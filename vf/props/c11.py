"""C11 — the daily model curve is continuous, monotone and its load components add up."""
import numpy as np
import pandas as pd
from hypothesis import strategies as st

from ..gen import params as gp
from ..hyp import explore, mix
from ..ref import daily_curve as rc

ID = "C11"
WARM = ["daily"]
RULE = (
    "Cases are single-sub-model parameter documents (all 7 shapes; coefficients anywhere in the optimiser's box incl. "
    "its faces: balance points on T_min_seg/T_max_seg, equal balance points, smoothing fractions 0/0.01+-/1 and sums "
    "> 1, one-sided k up to 1e3, tiny and huge slopes, negative intercepts) loaded with DailyModel.from_dict and "
    "predicted through the public predict() over a [-60,140]F sweep (0.5F steps) plus every recorded and "
    "smoothing-shifted balance point, its two float neighbours and +-1e-6. Non-trivial: the shape has at least one "
    "slope and the sweep has points in every regime of the shape (below the heating point, between, above the cooling "
    "point). One shard loads CalTRACK 2.0 parameter documents (hdd_only / cdd_only / cdd_hdd / intercept_only) one to four times "
    "from the same dict (or from JSON) and compares predicted / heating_load / cooling_load with the document's own lines. "
    "Distinct = distinct documents."
)
ASSUMPTIONS = [
    "admissible region: balance points strictly inside the recorded temperature limits, declared slopes non-zero (as C12 states)",
    "continuity is judged as a Lipschitz bound with the larger declared slope between neighbouring sweep points",
    "balance-point positions are compared with a tolerance of 1e-9 of the temperature scale (the shifted points are rounded)",
]


@st.composite
def cases(draw):
    c = draw(gp.doc_case(families=("daily",), admissible=True, single=True))
    c["kind"] = "curve"
    c["step"] = draw(st.sampled_from([0.5, 0.25, 1.0]))
    return c


@st.composite
def v2_cases(draw):
    """CalTRACK 2.0 parameter documents (the other way coefficients reach the curve): loaded several times from one dict."""
    mt = draw(st.sampled_from(["hdd_only", "cdd_only", "cdd_hdd", "intercept_only"]))
    p = {"intercept": draw(st.floats(0.5, 80))}
    hb = draw(st.floats(30, 65))
    if mt in ("hdd_only", "cdd_hdd"):
        p["beta_hdd"] = draw(st.floats(0.01, 5))
        p["heating_balance_point"] = hb
    if mt in ("cdd_only", "cdd_hdd"):
        p["beta_cdd"] = draw(st.floats(0.01, 5))
        p["cooling_balance_point"] = hb + draw(st.floats(0, 25)) if mt == "cdd_hdd" else draw(st.floats(55, 85))
    return {"kind": "v2", "doc": {"model_type": mt, "model_params": p}, "loads": draw(st.integers(1, 4)), "via": draw(st.sampled_from(["dict", "dict", "json"]))}


def judge_v2(case, rec):
    import copy
    import json

    from opendsm import eemeter as em

    doc = copy.deepcopy(case["doc"])
    before = copy.deepcopy(doc)
    p = doc["model_params"]
    T = np.arange(-60.0, 140.5, 0.5)
    idx = pd.date_range("2019-01-01", periods=len(T), freq="D", tz="UTC")
    rep = em.DailyReportingData(pd.DataFrame({"temperature": T}, index=idx), is_electricity_data=True)
    heat = p.get("beta_hdd", 0.0) * np.clip(p.get("heating_balance_point", 0.0) - T, 0, None) if "beta_hdd" in p else np.zeros_like(T)
    cool = p.get("beta_cdd", 0.0) * np.clip(T - p.get("cooling_balance_point", 0.0), 0, None) if "beta_cdd" in p else np.zeros_like(T)
    want = p["intercept"] + heat + cool
    K = "v2/" + doc["model_type"]
    for k in range(case["loads"]):
        m = em.DailyModel.from_2_0_dict(doc) if case["via"] == "dict" else em.DailyModel.from_2_0_json(json.dumps(doc))
        out = m.predict(rep)
        f = out["predicted"].values.astype(float)
        scale = 1 + float(np.max(np.abs(want)))
        for name, got, ref in (("predicted", f, want), ("heating_load", out["heating_load"].values.astype(float), heat),
                               ("cooling_load", out["cooling_load"].values.astype(float), cool)):
            bad = np.nonzero(~(np.abs(got - ref) <= 1e-9 * scale))[0]
            if len(bad):
                i = int(bad[0])
                rec.violation("%s/%s%s" % (K, name, "/repeated-load" if k else ""), case, "load #%d: %s at T=%r is %r, the document's line gives %r" % (
                    k + 1, name, float(T[i]), float(got[i]), float(ref[i])))
                break
        if doc != before:
            rec.violation(K + "/document-modified", case, "from_2_0_dict changed the caller's dict: %r -> %r" % (before["model_params"], doc["model_params"]))
            break
    rec.case(case, doc["model_type"] != "intercept_only", ["shape=v2:" + doc["model_type"], "loads=%d" % case["loads"]])


def predict_sweep(case, T, rows=None):
    """predict() over the sweep; with rows=(a, b) only over that contiguous part of it (same dates, same temperatures)."""
    from opendsm import eemeter as em

    m, doc = gp.build_model(case)
    idx = pd.date_range("2019-01-01", periods=len(T), freq="D", tz=case["tz"])
    frame = pd.DataFrame({"temperature": T}, index=idx)
    if rows is not None:
        frame = frame.iloc[rows[0]:rows[1]]
    rep = em.DailyReportingData(frame, is_electricity_data=True)
    out = m.predict(rep)
    return out, doc


def judge(case, rec):
    if case.get("kind") == "v2":
        return judge_v2(case, rec)
    name = next(iter(case["submodels"]))
    sm = case["submodels"][name]
    c, tc = sm["coefficients"], sm["temperature_constraints"]
    mt = c["model_type"]
    T = gp.sweep_temperatures(case, step=case.get("step", 0.5))
    out, doc = predict_sweep(case, T)
    cls = ["shape=" + mt]
    K = mt
    if len(out) != len(T) or not np.array_equal(out["temperature"].values, T):
        rec.violation(K + "/rows", case, "predict() did not return the sweep rows in order")
        rec.case(case, False, cls)
        return
    f = out["predicted"].values.astype(float)
    h = out["heating_load"].values.astype(float)
    co = out["cooling_load"].values.astype(float)
    if not (np.isfinite(f).all() and np.isfinite(h).all() and np.isfinite(co).all()):
        rec.violation(K + "/non-finite", case, "non-finite prediction or load on a finite temperature")
        rec.case(case, False, cls)
        return
    hb, bh, kh, cb, bc, kc, b = rc.effective(c, tc)
    L = max(bh, bc)
    scale = abs(b) + L * 220.0 + 1e-300
    eps = np.finfo(float).eps
    tolv = 64 * eps * scale  # rounding of a handful of operations on numbers up to `scale`
    tolT = 1e-9 * 200.0

    # 1. continuity (Lipschitz with the larger slope); this also bounds the jump across each balance point
    dT = np.diff(T)
    df = np.abs(np.diff(f))
    bad = df > L * dT * (1 + 1e-9) + tolv
    if bad.any():
        i = int(np.nonzero(bad)[0][0])
        rec.violation(K + "/discontinuous", case, "f(%r)=%r, f(%r)=%r: jump %.3g exceeds slope %.3g x dT" % (
            T[i], f[i], T[i + 1], f[i + 1], df[i], L))
    # 2. temperature-independent load between the (shifted) balance points
    if hb is None:
        flat = np.ones(len(T), bool)
    else:
        flat = (T > hb + tolT) & (T < cb - tolT)
    if flat.any() and not (f[flat] == b).all():
        i = int(np.nonzero(flat & (f != b))[0][0])
        rec.violation(K + "/not-flat-between-balance-points", case, "f(%r)=%r != intercept %r" % (T[i], f[i], b))
    if hb is not None:
        below = T < hb - tolT
        above = T > cb + tolT
        # 3. monotone away from the balance points
        fb = f[below]
        if len(fb) > 1 and (np.diff(fb) > tolv).any():
            i = int(np.nonzero(np.diff(fb) > tolv)[0][0])
            rec.violation(K + "/not-monotone-heating-side", case, "f increases with T below the heating balance point at T=%r" % T[below][i])
        fa = f[above]
        if len(fa) > 1 and (np.diff(fa) < -tolv).any():
            i = int(np.nonzero(np.diff(fa) < -tolv)[0][0])
            rec.violation(K + "/not-monotone-cooling-side", case, "f decreases with T above the cooling balance point at T=%r" % T[above][i])
        # 4./5. straight line with the declared slope: exact when unsmoothed, asymptotic (and never above it) when smoothed
        for side, mask, bp, beta, k in (("heating", below, hb, bh, kh), ("cooling", above, cb, bc, kc)):
            if not mask.any():
                continue
            x = np.abs(T[mask] - bp)
            line = b + beta * x
            if beta == 0:
                if not (np.abs(f[mask] - b) <= tolv).all():
                    rec.violation(K + "/slope-on-undeclared-side/" + side, case, "f varies on the %s side although no %s slope is declared" % (side, side))
                continue
            tol = 1e-9 * (abs(b) + beta * x) + tolv
            if k == 0:
                if not (np.abs(f[mask] - line) <= tol).all():
                    i = int(np.argmax(np.abs(f[mask] - line) - tol))
                    rec.violation(K + "/unsmoothed-line/" + side, case, "f(%r)=%r, line gives %r" % (T[mask][i], f[mask][i], line[i]))
            else:
                if (f[mask] > line + tol).any():
                    rec.violation(K + "/crosses-line/" + side, case, "smoothed curve lies above the straight line")
                if (f[mask] < b - tolv).any():
                    rec.violation(K + "/below-base/" + side, case, "smoothed curve dips below the base load")
                far = x > 40 * k
                if far.sum() >= 2:
                    xs, fs = x[far], f[mask][far]
                    o = np.argsort(xs)
                    xs, fs = xs[o], fs[o]
                    if xs[-1] - xs[0] > 1.0:
                        q = (fs[-1] - fs[0]) / (xs[-1] - xs[0])
                        if abs(q / beta - 1) > 1e-6:
                            rec.violation(K + "/asymptotic-slope/" + side, case, "difference quotient %r far from the balance point, slope %r" % (q, beta))
                    asym = line - beta * k
                    if not (np.abs(fs - asym[far][o]) <= 1e-9 * (abs(b) + beta * xs + beta * k) + tolv).all():
                        rec.violation(K + "/asymptote/" + side, case, "far from the balance point the curve is not the shifted straight line")
    # 6. loads
    if (h < -tolv).any() or (co < -tolv).any():  # tolv: a rounding residue next to a balance point is not a negative load
        i = int(np.nonzero((h < -tolv) | (co < -tolv))[0][0])
        rec.violation(K + "/negative-load", case, "T=%r heating_load=%r cooling_load=%r" % (T[i], h[i], co[i]))
    if ((h != 0) & (co != 0)).any():
        i = int(np.nonzero((h != 0) & (co != 0))[0][0])
        rec.violation(K + "/both-loads-nonzero", case, "T=%r heating_load=%r cooling_load=%r" % (T[i], h[i], co[i]))
    tot = b + h + co
    big = np.maximum(np.maximum(np.abs(f), np.abs(h)), np.maximum(np.abs(co), abs(b)))
    if (np.abs(tot - f) > 2 * eps * big).any():
        i = int(np.argmax(np.abs(tot - f) - 2 * eps * big))
        rec.violation(K + "/loads-do-not-add-up", case, "T=%r intercept+heating+cooling=%r predicted=%r" % (T[i], tot[i], f[i]))
    # loads sit on the right side
    if hb is not None:
        if (h[T > hb + tolT] != 0).any():
            rec.violation(K + "/heating-load-above-balance-point", case, "heating load non-zero above the heating balance point")
        if (co[T < cb - tolT] != 0).any():
            rec.violation(K + "/cooling-load-below-balance-point", case, "cooling load non-zero below the cooling balance point")
    # agreement with the reference curve (same clause C01 uses; cheap here)
    y, hh, cc = rc.curve(c, tc, T)
    tol = 1e-9 * scale + 1e-12 * np.abs(y)
    near = np.zeros(len(T), bool)
    if hb is not None:
        near = (np.abs(T - hb) <= tolT) | (np.abs(T - cb) <= tolT)
    d = np.abs(f - y)
    if (d[~near] > tol[~near]).any():
        i = int(np.argmax(np.where(near, 0, d - tol)))
        rec.violation(K + "/differs-from-formula", case, "T=%r predicted=%r formula=%r" % (T[i], f[i], y[i]))
    # 7. the value for a day depends on that day's temperature only: predicting a part of the sweep on its own (only the days between
    # the recorded balance points, only the cold days, only the hot days, one day) gives the values the whole sweep gave
    parts = []
    if c.get("hdd_bp") is not None and c.get("cdd_bp") is not None:
        lo_bp, hi_bp = min(c["hdd_bp"], c["cdd_bp"]), max(c["hdd_bp"], c["cdd_bp"])
        a, z = int(np.searchsorted(T, lo_bp, side="right")), int(np.searchsorted(T, hi_bp, side="left"))
        parts += [("between-recorded-balance-points", a, z), ("cold-days", 0, a), ("hot-days", z, len(T))]
        if z - a >= 1:
            parts.append(("one-day", a, a + 1))
            parts.append(("one-day", z - 1, z))
    else:
        bp = c.get("hdd_bp") if c.get("hdd_bp") is not None else c.get("cdd_bp")
        if bp is not None:
            a = int(np.searchsorted(T, bp, side="right"))
            parts += [("cold-days", 0, a), ("hot-days", a, len(T))]
    for pname, a, z in parts:
        if z - a < 1:
            continue
        sub, _ = predict_sweep(case, T, rows=(a, z))
        for col, whole in (("predicted", f), ("heating_load", h), ("cooling_load", co)):
            got = sub[col].values.astype(float)
            if len(got) != z - a or not (np.abs(got - whole[a:z]) <= tolv).all():
                i = int(np.argmax(np.abs(got - whole[a:z]))) if len(got) == z - a else 0
                rec.violation(K + "/depends-on-the-other-days/" + pname, case, "%s at T=%r is %r when only the %s are predicted, %r within the whole sweep" % (
                    col, float(T[a + i]), float(got[i]) if len(got) == z - a else None, pname, float(whole[a + i])))
                break
    regimes = True
    if hb is not None:
        regimes = (T < hb - tolT).any() and (T > cb + tolT).any() and (hb == cb or ((T > hb) & (T < cb)).any())
    nt = mt != "tidd" and regimes
    sm_cls = []
    if mt == "hdd_tidd_cdd_smooth":
        s = c["hdd_k"] + c["cdd_k"]
        sm_cls = ["pctsum=" + ("ge1" if s >= 1 else "lt1")]
    rec.case(case, bool(nt), cls + sm_cls)


def shards(tier, seed):
    per = 250 if tier == "quick" else 4000
    return [{"i": i, "n": per, "seed": mix(seed, ID, i)} for i in range(15)] + [{"i": 15, "n": 200 if tier == "quick" else 3000, "seed": mix(seed, ID, "v2"), "v2": True}]


def run_shard(spec, rec):
    explore(v2_cases() if spec.get("v2") else cases(), judge, rec, max_examples=spec["n"], seed=spec["seed"], shrink=True)


def replay(case, rec):
    judge(case, rec)
