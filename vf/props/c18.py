"""C18 — CalTRACK hourly: each hour belongs to its own month; bin features sum to T."""
import contextlib
import io
import itertools

import numpy as np
import pandas as pd
from hypothesis import strategies as st

from ..hyp import explore, mix

ID = "C18"
WARM = []
RULE = (
    "Five sub-domains. weights: every hour of 2020 and 2021 x 8 zones x 4 segment types against a reference weight "
    "table (exhaustive), plus generated sub-spans with drop_zero_weight_segments. how: hour_of_week for every hour of "
    "the same calendars. bins: generated temperature vectors (on/between/beyond endpoints, NaN) x all 64 subsets of "
    "{30,45,55,65,75,90}. route: generated CalTRACKHourlyModel objects with random per-segment coefficients, occupancy "
    "and bins, predicted over generated spans and compared with an independent numpy evaluation that uses only each "
    "hour's own-month segment. fitw: generated baselines pushed through the fitting pipeline; each segment's design "
    "matrix weights must equal the reference table and the fitted coefficients must equal a numpy weighted least "
    "squares on that matrix. Non-trivial: weights/how - every (year, zone, type) calendar; bins - at least one "
    "endpoint and a temperature beyond the second bin; route - span touches >= 2 calendar months; fitw - baseline "
    "touches >= 3 months. Distinct = distinct case descriptions."
)
ASSUMPTIONS = [
    "hourly index with freq='h' as built by the CalTRACK hourly data classes",
    "reference prediction evaluates only coefficients that exist in the segment model, as the formula does",
]

MON = ["jan", "feb", "mar", "apr", "may", "jun", "jul", "aug", "sep", "oct", "nov", "dec"]
ZONES = ["UTC", "America/Chicago", "America/Los_Angeles", "Europe/London", "Australia/Sydney", "Asia/Kolkata",
         "America/Sao_Paulo", "Pacific/Auckland"]
TYPES = ["single", "one_month", "three_month", "three_month_weighted"]
ENDS = [30, 45, 55, 65, 75, 90]


# ------------------------------------------------------------------ reference
def ref_weights(months, seg_type):
    """dict column name -> weight vector, written from the CalTRACK description."""
    m = np.asarray(months)
    out = {}
    if seg_type == "single":
        out["all"] = np.ones(len(m))
    elif seg_type == "one_month":
        for k in range(12):
            out[MON[k]] = (m == k + 1).astype(float)
    else:
        for k in range(12):  # k = centre month index
            a, b, c = (k - 1) % 12, k, (k + 1) % 12
            name = "%s-%s-%s" % (MON[a], MON[b], MON[c])
            if seg_type == "three_month":
                out[name] = np.isin(m, [a + 1, b + 1, c + 1]).astype(float)
            else:
                out[name + "-weighted"] = np.where(m == b + 1, 1.0, np.where((m == a + 1) | (m == c + 1), 0.5, 0.0))
    return out


def ref_bins(T, ends):
    """list of arrays, one per bin: first min(T, e0); then clip(T - left, 0, width)."""
    T = np.asarray(T, float)
    e = [-np.inf] + list(ends) + [np.inf]
    out = []
    for i in range(len(e) - 1):
        if len(e) == 2:
            v = T.copy()
        elif i == 0:
            v = np.minimum(T, e[1])
        else:
            v = np.clip(T - e[i], 0.0, e[i + 1] - e[i])
        v = np.where(np.isnan(T), np.nan, v)
        out.append(v)
    return out


# ------------------------------------------------------------------ weights / hour-of-week (exhaustive)
def judge_calendar(c, rec):
    from opendsm.eemeter.common.features import compute_time_features
    from opendsm.eemeter.models.hourly_caltrack.segmentation import segment_time_series

    year, tz, typ = c["year"], c["tz"], c["type"]
    idx = pd.date_range("%d-01-01" % year, "%d-01-01" % (year + 1), freq="h", tz=tz, inclusive="left")
    w = segment_time_series(idx, typ)
    ref = ref_weights(idx.month.values, typ)
    cls = ["sub=weights", "type=" + typ]
    if list(w.columns) != list(ref.keys()):
        rec.violation("weights/columns/" + typ, c, "columns %s" % list(w.columns))
    else:
        for name, v in ref.items():
            got = w[name].values.astype(float)
            if not np.array_equal(got, v):
                bad = int(np.nonzero(got != v)[0][0])
                rec.violation("weights/value/" + typ, c, "column %s at %s: %r != %r" % (name, idx[bad], got[bad], v[bad]))
                break
    if not w.index.equals(idx):
        rec.violation("weights/index/" + typ, c, "index changed")
    full = (w.values == 1.0).sum(axis=1)
    half = (w.values == 0.5).sum(axis=1)
    want = {"single": (1, 0), "one_month": (1, 0), "three_month": (3, 0), "three_month_weighted": (1, 2)}[typ]
    if not ((full == want[0]).all() and (half == want[1]).all()):
        rec.violation("weights/count/" + typ, c, "full/half weight counts per hour are not %s" % (want,))
    rec.note("hours_checked", len(idx))
    if typ == "single":  # hour-of-week once per (year, zone)
        tf = compute_time_features(idx)
        how = tf["hour_of_week"].astype(int).values
        exp = idx.dayofweek.values * 24 + idx.hour.values
        # independent of pandas' dayofweek: days since a known Monday (2019-12-30) in local wall time
        loc = idx.tz_localize(None)
        days = ((loc.normalize() - pd.Timestamp("2019-12-30")) // pd.Timedelta(days=1)).values
        exp2 = (days % 7) * 24 + loc.hour.values
        if not (np.array_equal(how, exp) and np.array_equal(how, exp2)):
            rec.violation("how/value", c, "hour_of_week differs from 24*weekday+hour")
        if set(np.unique(how)) != set(range(168)):
            rec.violation("how/range", c, "hour_of_week does not take all 168 values")
        if "day_of_week" in tf and not np.array_equal(tf["day_of_week"].astype(int).values, exp2 // 24):
            rec.violation("how/day_of_week", c, "day_of_week wrong")
        if "hour_of_day" in tf and not np.array_equal(tf["hour_of_day"].astype(int).values, exp2 % 24):
            rec.violation("how/hour_of_day", c, "hour_of_day wrong")
        cls.append("sub=how")
    rec.case(c, True, cls)


# ------------------------------------------------------------------ sub-span weights with dropping
@st.composite
def span_cases(draw):
    return {"kind": "span", "tz": draw(st.sampled_from(ZONES)), "start_h": draw(st.integers(0, 366 * 24 * 2)),
            "n": draw(st.one_of(st.integers(1, 200), st.integers(1, 24 * 120))),
            "type": draw(st.sampled_from(TYPES)), "drop": draw(st.booleans())}


def judge_span(c, rec):
    from opendsm.eemeter.models.hourly_caltrack.segmentation import segment_time_series

    idx0 = pd.date_range(pd.Timestamp("2020-01-01", tz="UTC") + pd.Timedelta(hours=c["start_h"]), periods=c["n"], freq="h")
    # the same instants on the meter's clock and then on two other clocks (a meter processed in local time and again in UTC): each
    # answer belongs to the calendar of the index it was asked for
    others = [z for z in ("UTC", "Asia/Tokyo", "America/Los_Angeles") if z != c["tz"]][:2]
    for pos, tz in enumerate([c["tz"]] + others):
        idx = idx0.tz_convert(tz)
        w = segment_time_series(idx, c["type"], drop_zero_weight_segments=c["drop"])
        ref = ref_weights(idx.month.values, c["type"])
        if c["drop"]:
            ref = {k: v for k, v in ref.items() if v.sum() > 0}
        ok = list(w.columns) == list(ref.keys()) and all(np.array_equal(w[k].values.astype(float), v) for k, v in ref.items()) and w.index.equals(idx)
        if not ok:
            rec.violation("weights/span/%s/drop=%d%s" % (c["type"], c["drop"], "/same-instants-on-another-clock" if pos else ""), c,
                          "zone %s: columns %s" % (tz, list(w.columns)))
            break
    idx = idx0.tz_convert(c["tz"])
    nm = len(set(idx.month.values))
    rec.case(c, nm >= 2, ["sub=span", "type=" + c["type"], "months=%d" % min(nm, 4)])


# ------------------------------------------------------------------ bins
@st.composite
def bin_cases(draw):
    sub = draw(st.lists(st.sampled_from(ENDS), unique=True, max_size=6))
    sub = sorted(sub)
    el = st.one_of(
        st.floats(-60, 140, allow_nan=False),
        st.sampled_from(ENDS).map(float),
        st.sampled_from(ENDS).flatmap(lambda e: st.sampled_from([np.nextafter(e, -np.inf), np.nextafter(e, np.inf),
                                                                 e - 1e-9, e + 1e-9])),
        st.just(float("nan")),
        st.sampled_from([-1e6, 1e6, 0.0, -0.0]),
    )
    T = draw(st.lists(el, min_size=1, max_size=40))
    return {"kind": "bins", "ends": sub, "T": T}


def judge_bins(c, rec):
    from opendsm.eemeter.common.features import compute_temperature_bin_features

    T = pd.Series(np.array(c["T"], float), index=pd.date_range("2020-01-01", periods=len(c["T"]), freq="h", tz="UTC"))
    f = compute_temperature_bin_features(T, list(c["ends"]))
    ref = ref_bins(T.values, c["ends"])
    key = "bins"
    if list(f.columns) != ["bin_%d" % i for i in range(len(ref))]:
        rec.violation(key + "/columns", c, str(list(f.columns)))
    else:
        nan = np.isnan(T.values)
        for i, v in enumerate(ref):
            got = f["bin_%d" % i].values.astype(float)
            if not np.array_equal(np.isnan(got), nan):
                rec.violation(key + "/nan-pattern", c, "bin_%d NaN pattern differs from the temperature's" % i)
                break
            tol = 1e-9 * np.maximum(1.0, np.abs(T.values[~nan]))
            if not (np.abs(got[~nan] - v[~nan]) <= tol).all():
                j = int(np.nonzero(np.abs(got[~nan] - v[~nan]) > tol)[0][0])
                rec.violation(key + "/value", c, "bin_%d: got %r expected %r (T=%r)" % (i, got[~nan][j], v[~nan][j], T.values[~nan][j]))
                break
        s = f.sum(axis=1, skipna=False).values
        tol = 1e-9 * np.maximum(1.0, np.abs(T.values[~nan]))
        if not (np.abs(s[~nan] - T.values[~nan]) <= tol).all():
            rec.violation(key + "/sum", c, "row sums differ from the temperature")
    if not f.index.equals(T.index):
        rec.violation(key + "/index", c, "index changed")
    fin = T.values[np.isfinite(T.values)]
    nt = len(c["ends"]) >= 1 and len(fin) > 0 and (len(c["ends"]) < 2 or fin.max() > c["ends"][1])
    rec.case(c, bool(nt), ["sub=bins", "nends=%d" % len(c["ends"]), "hasnan=%d" % int(np.isnan(T.values).any())])


# ------------------------------------------------------------------ routing / prediction differential
@st.composite
def route_cases(draw):
    c = {"kind": "route"}
    c["segment_type"] = draw(st.sampled_from(["three_month_weighted", "three_month_weighted", "single"]))
    c["tz"] = draw(st.sampled_from(ZONES))
    c["start_h"] = draw(st.integers(0, 366 * 24 * 2))
    c["n"] = draw(st.one_of(st.integers(1, 72), st.integers(24, 24 * 100), st.just(24 * 366)))
    c["seed"] = draw(st.integers(0, 2 ** 31 - 1))
    c["missing_segments"] = draw(st.lists(st.integers(0, 11), max_size=2, unique=True))
    c["nan_T"] = draw(st.lists(st.integers(0, 24 * 366), max_size=4))
    c["drop_how"] = draw(st.booleans())  # some hour-of-week coefficients absent from a segment (unseen in baseline)
    return c


def build_model(c):
    from opendsm.eemeter.models.hourly_caltrack.model import CalTRACKHourlyModel
    from opendsm.eemeter.models.hourly_caltrack.segmentation import CalTRACKSegmentModel

    rng = np.random.default_rng(c["seed"])
    typ = c["segment_type"]
    names = list(ref_weights(np.array([1]), typ).keys())
    occ = pd.DataFrame({n: rng.random(168) < 0.5 for n in names}, index=pd.CategoricalIndex(range(168)))
    occ = occ.astype(float)
    ob = pd.DataFrame({n: rng.random(6) < 0.5 for n in names}, index=pd.Index(ENDS, name="bin_endpoints"))
    ub = pd.DataFrame({n: rng.random(6) < 0.5 for n in names}, index=pd.Index(ENDS, name="bin_endpoints"))
    segs = []
    spec = {}
    for j, n in enumerate(names):
        if typ != "single" and j in c["missing_segments"]:
            continue
        hows = list(range(168))
        if c["drop_how"]:
            hows = [h for h in hows if rng.random() > 0.03]
        p = {"C(hour_of_week)[%d]" % h: float(np.round(rng.normal(10 * (j + 1), 3), 3)) for h in hows}
        no, nu = int(ob[n].sum()) + 1, int(ub[n].sum()) + 1
        cols = []
        for i in range(no):
            p["bin_%d_occupied" % i] = float(np.round(rng.normal(0, 0.5), 3))
            cols.append("bin_%d_occupied" % i)
        for i in range(nu):
            p["bin_%d_unoccupied" % i] = float(np.round(rng.normal(0, 0.5), 3))
            cols.append("bin_%d_unoccupied" % i)
        formula = "meter_value ~ C(hour_of_week) - 1" + "".join(" + " + x for x in cols)
        segs.append(CalTRACKSegmentModel(n, None, formula, p))
        spec[n] = p
    m = CalTRACKHourlyModel(segs, occ, ob, ub, typ)
    return m, names, occ, ob, ub, spec


def judge_route(c, rec):
    m, names, occ, ob, ub, spec = build_model(c)
    rng = np.random.default_rng(c["seed"] + 1)
    idx0 = pd.date_range(pd.Timestamp("2020-01-01", tz="UTC") + pd.Timedelta(hours=c["start_h"]), periods=c["n"], freq="h")
    Tv = np.round(rng.uniform(-10, 110, len(idx0)), 2)
    for k in c["nan_T"]:
        if k < len(Tv):
            Tv[k] = np.nan
    typ = c["segment_type"]
    # the same model predicts the same instants on the case's clock and then on two other clocks: each hour is routed and labelled
    # by the calendar of the index it was asked for
    others = [z for z in ("UTC", "Asia/Kolkata", "America/Los_Angeles") if z != c["tz"]][:2]
    for pos, tz in enumerate([c["tz"]] + others):
        if _route_on(m, occ, ob, ub, spec, typ, idx0.tz_convert(tz), Tv, c, rec, "/same-instants-on-another-clock" if pos else ""):
            break
    month = idx0.tz_convert(c["tz"]).month.values
    nm = len(set(month))
    rec.case(c, nm >= 2, ["sub=route", "type=" + typ, "months=%d" % min(nm, 4), "missing_seg=%d" % bool(c["missing_segments"])])


def _route_on(m, occ, ob, ub, spec, typ, idx, Tv, c, rec, tag):
    """one prediction on one clock against the own-month reference; True when a violation was recorded"""
    T = pd.Series(Tv, index=idx)
    out = m.predict(idx, T).result
    # reference: own month's segment only
    loc = idx.tz_localize(None)
    days = ((loc.normalize() - pd.Timestamp("2019-12-30")) // pd.Timedelta(days=1)).values
    how = (days % 7) * 24 + loc.hour.values
    month = loc.month.values
    exp = np.full(len(idx), np.nan)
    for i in range(len(idx)):
        if typ == "single":
            seg = "all"
        else:
            k = month[i] - 1
            seg = "%s-%s-%s-weighted" % (MON[(k - 1) % 12], MON[k], MON[(k + 1) % 12])
        p = spec.get(seg)
        if p is None or np.isnan(Tv[i]):
            continue
        a = p.get("C(hour_of_week)[%d]" % how[i])
        if a is None:
            continue
        occupied = occ[seg].iloc[how[i]] == 1
        if occupied:
            ends = [e for e in ENDS if ob[seg].loc[e]]
            feats = ref_bins([Tv[i]], ends)
            v = a + sum(p["bin_%d_occupied" % b] * feats[b][0] for b in range(len(feats)))
        else:
            ends = [e for e in ENDS if ub[seg].loc[e]]
            feats = ref_bins([Tv[i]], ends)
            v = a + sum(p["bin_%d_unoccupied" % b] * feats[b][0] for b in range(len(feats)))
        exp[i] = v
    key = "route/" + typ
    bad = False
    # rows may be absent only when no segment model produced anything for them (they then count as NaN)
    if out.index.has_duplicates or not out.index.isin(idx).all() or not out.index.is_monotonic_increasing:
        rec.violation(key + "/index" + tag, c, "prediction index is not a sub-sequence of the prediction index requested (zone %s)" % idx.tz)
        bad = True
    else:
        if "predicted_usage" in out.columns:
            got = out["predicted_usage"].reindex(idx).values.astype(float)
        else:
            got = np.full(len(idx), np.nan)
        if not np.array_equal(np.isnan(got), np.isnan(exp)):
            j = int(np.nonzero(np.isnan(got) != np.isnan(exp))[0][0])
            rec.violation(key + "/nan-pattern" + tag, c, "at %s got %r expected %r" % (idx[j], got[j], exp[j]))
            bad = True
        else:
            okm = ~np.isnan(exp)
            d = np.abs(got[okm] - exp[okm])
            if (d > 1e-8 * (1 + np.abs(exp[okm]))).any():
                j = int(np.argmax(d))
                rec.violation(key + "/value" + tag, c, "at %s got %r expected %r (month %d)" % (
                    idx[okm][j], got[okm][j], exp[okm][j], month[okm][j]))
                bad = True
    return bad


# ------------------------------------------------------------------ prediction feature processor: occupied xor unoccupied
@st.composite
def proc_cases(draw):
    return {"kind": "proc", "seed": draw(st.integers(0, 2 ** 31 - 1)), "tz": draw(st.sampled_from(ZONES)),
            "start_h": draw(st.integers(0, 366 * 24)), "n": draw(st.integers(1, 400)),
            "fit": draw(st.booleans())}


def judge_proc(c, rec):
    from opendsm.eemeter.models.hourly_caltrack.model import (caltrack_hourly_fit_feature_processor,
                                                                caltrack_hourly_prediction_feature_processor)

    rng = np.random.default_rng(c["seed"])
    idx = pd.date_range(pd.Timestamp("2020-01-01", tz="UTC") + pd.Timedelta(hours=c["start_h"]), periods=c["n"],
                        freq="h").tz_convert(c["tz"])
    Tv = np.round(rng.uniform(-10, 110, len(idx)), 2)
    Tv[rng.random(len(idx)) < 0.03] = np.nan
    occ = pd.DataFrame({"seg": (rng.random(168) < 0.5).astype(float)}, index=pd.CategoricalIndex(range(168)))
    ob = pd.DataFrame({"seg": rng.random(6) < 0.5}, index=pd.Index(ENDS, name="bin_endpoints"))
    ub = pd.DataFrame({"seg": rng.random(6) < 0.5}, index=pd.Index(ENDS, name="bin_endpoints"))
    loc = idx.tz_localize(None)
    days = ((loc.normalize() - pd.Timestamp("2019-12-30")) // pd.Timedelta(days=1)).values
    how = (days % 7) * 24 + loc.hour.values
    if c["fit"]:
        data = pd.DataFrame({"meter_value": rng.random(len(idx)), "temperature_mean": Tv,
                             "hour_of_week": pd.Categorical(how, categories=range(168)), "weight": 1.0}, index=idx)
        f = caltrack_hourly_fit_feature_processor("seg", data, occ, ob, ub)
    else:
        data = pd.DataFrame({"temperature_mean": Tv, "weight": 1.0}, index=idx)
        f = caltrack_hourly_prediction_feature_processor("seg", data, occ, ob, ub)
    key = "proc/" + ("fit" if c["fit"] else "predict")
    oc = [x for x in f.columns if x.endswith("_occupied")]
    uc = [x for x in f.columns if x.endswith("_unoccupied")]
    if len(oc) != int(ob["seg"].sum()) + 1 or len(uc) != int(ub["seg"].sum()) + 1:
        rec.violation(key + "/columns", c, "columns %s" % list(f.columns))
    f = f.reindex(idx)
    o_nz = (f[oc].fillna(0).values != 0).any(axis=1)
    u_nz = (f[uc].fillna(0).values != 0).any(axis=1)
    if (o_nz & u_nz).any():
        rec.violation(key + "/both-nonzero", c, "occupied and unoccupied features both non-zero at %s" % idx[np.nonzero(o_nz & u_nz)[0][0]])
    occupied = occ["seg"].values[how] == 1
    fin = ~np.isnan(Tv)
    so = f[oc].sum(axis=1, skipna=False).values
    su = f[uc].sum(axis=1, skipna=False).values
    exp_o = np.where(occupied, Tv, 0.0)
    exp_u = np.where(occupied, 0.0, Tv)
    if not (np.abs(so[fin] - exp_o[fin]) <= 1e-9 * (1 + np.abs(Tv[fin]))).all():
        rec.violation(key + "/occupied-sum", c, "occupied bin features do not sum to T on occupied hours / 0 elsewhere")
    if not (np.abs(su[fin] - exp_u[fin]) <= 1e-9 * (1 + np.abs(Tv[fin]))).all():
        rec.violation(key + "/unoccupied-sum", c, "unoccupied bin features do not sum to T on unoccupied hours / 0 elsewhere")
    if "hour_of_week" in f:
        hv = pd.to_numeric(f["hour_of_week"].astype(object), errors="coerce").values.astype(float)
        okh = ~np.isnan(hv)
        if not (np.array_equal(hv[okh], how[okh].astype(float)) and (okh | ~fin).all()):
            rec.violation(key + "/hour_of_week", c, "hour_of_week feature wrong")
    rec.case(c, bool(occupied.any() and (~occupied).any()), ["sub=proc", "fit=%d" % c["fit"]])


# ------------------------------------------------------------------ fitting path: weights reach the regression
@st.composite
def fitw_cases(draw):
    return {"kind": "fitw", "seed": draw(st.integers(0, 2 ** 31 - 1)), "tz": draw(st.sampled_from(ZONES[:5])),
            "start_day": draw(st.integers(0, 700)), "days": draw(st.one_of(st.integers(70, 150), st.integers(70, 150), st.integers(372, 420)))}


def judge_wrapper(c, rec):
    """The public wrapper fitted on a whole calendar year (leap years included): every baseline hour carries weight 1 in its own month's
    design matrix and 0.5 in the two neighbours' - no hour of the baseline is left out."""
    from opendsm import eemeter as em

    year, tz = c["year"], c["tz"]
    idx = pd.date_range("%d-01-01" % year, "%d-01-01" % (year + 1), freq="h", tz=tz, inclusive="left")
    rng = np.random.default_rng(c["seed"])
    doy = idx.dayofyear.values
    T = 55 - 25 * np.cos((doy - 15) / 365 * 2 * np.pi) + 8 * np.sin((idx.hour.values - 9) / 24 * 2 * np.pi) + rng.normal(0, 3, len(idx))
    y = (1 + 0.5 * np.sin((idx.hour.values - 14) / 24 * 2 * np.pi)) * (1 + 0.05 * np.clip(50 - T, 0, None) + 0.04 * np.clip(T - 68, 0, None)) + rng.normal(0, 0.1, len(idx))
    with contextlib.redirect_stdout(io.StringIO()):
        data = em.HourlyCaltrackBaselineData(pd.DataFrame({"temperature": T, "observed": y}, index=idx), is_electricity_data=True)
        m = em.HourlyCaltrackModel().fit(data)
    sdm = m.model_process_variables.segmented_design_matrices
    ref = ref_weights(idx.month.values, "three_month_weighted")
    if sorted(sdm) != sorted(ref):
        rec.violation("wrapper/segments", c, "segments %s" % sorted(sdm))
    else:
        for name, dm in sdm.items():
            got = dm["weight"].reindex(idx).fillna(0.0).values.astype(float)
            want = ref[name].copy()
            want[-1] = got[-1]  # the closing row of the data carries no usage
            if not np.array_equal(got, want):
                i = int(np.nonzero(got != want)[0][0])
                rec.violation("wrapper/design-matrix-weights", c, "segment %s: baseline hour %s has weight %r in the fitted design matrix, the table gives %r (%d hours differ)" % (
                    name, idx[i], got[i], want[i], int((got != want).sum())))
                break
    rec.case(c, True, ["sub=wrapper", "year=%d" % year, "leap=%d" % (len(idx) > 8760)])


def judge_fitw(c, rec):
    from opendsm.eemeter.models.hourly_caltrack.design_matrices import (
        create_caltrack_hourly_preliminary_design_matrix, create_caltrack_hourly_segmented_design_matrices)
    from opendsm.eemeter.models.hourly_caltrack.model import fit_caltrack_hourly_model_segment
    from opendsm.eemeter.models.hourly_caltrack.segmentation import segment_time_series
    from opendsm.eemeter.common.features import estimate_hour_of_week_occupancy, fit_temperature_bins

    rng = np.random.default_rng(c["seed"])
    idx = pd.date_range(pd.Timestamp("2019-01-01") + pd.Timedelta(days=c["start_day"]), periods=c["days"] * 24, freq="h",
                        tz="UTC").tz_convert(c["tz"])
    doy = idx.dayofyear.values
    T = 55 - 25 * np.cos((doy - 15) / 365 * 2 * np.pi) + 8 * np.sin((idx.hour.values - 9) / 24 * 2 * np.pi) + rng.normal(0, 3, len(idx))
    y = (1 + 0.5 * np.sin((idx.hour.values - 14) / 24 * 2 * np.pi)) * (1 + 0.05 * np.clip(50 - T, 0, None) + 0.04 * np.clip(T - 68, 0, None)) + rng.normal(0, 0.1, len(idx))
    meter = pd.DataFrame({"value": y}, index=idx)
    temp = pd.Series(T, index=idx)
    pdm = create_caltrack_hourly_preliminary_design_matrix(meter, temp)
    seg = segment_time_series(pdm.index, "three_month_weighted")
    occ = estimate_hour_of_week_occupancy(pdm, segmentation=seg)
    ob, ub = fit_temperature_bins(pdm, segmentation=seg, occupancy_lookup=occ)
    sdm = create_caltrack_hourly_segmented_design_matrices(pdm, seg, occ, ob, ub)
    ref = ref_weights(pdm.index.month.values, "three_month_weighted")
    months = sorted(set(pdm.index.month.values))
    nchecked = 0
    for name, dm in sdm.items():
        got_w = dm["weight"].reindex(pdm.index).values.astype(float)
        known = ~np.isnan(got_w)
        # rows blanked because their meter value / temperature is missing carry no weight at all
        blank_ok = pdm["meter_value"].isna().values | pdm["temperature_mean"].isna().values
        if not (np.array_equal(got_w[known], ref[name][known]) and blank_ok[~known].all()):
            rec.violation("fitw/design-matrix-weights", c, "segment %s: weights of the design matrix differ from the table" % name)
            continue
        if dm.dropna().empty or (dm["weight"] > 0).sum() < 400:
            continue
        if nchecked >= 2:
            continue
        nchecked += 1
        sm = fit_caltrack_hourly_model_segment(name, dm.copy())
        # numpy weighted least squares on the same matrix
        d = dm.dropna()
        hows = sorted(set(int(h) for h in d["hour_of_week"].astype(int)))
        bins = [x for x in d.columns if x.startswith("bin")]
        X = np.zeros((len(d), len(hows) + len(bins)))
        pos = {h: i for i, h in enumerate(hows)}
        X[np.arange(len(d)), [pos[int(h)] for h in d["hour_of_week"].astype(int)]] = 1.0
        for j, b in enumerate(bins):
            X[:, len(hows) + j] = d[b].values
        sw = np.sqrt(d["weight"].values.astype(float))
        beta, *_ = np.linalg.lstsq(X * sw[:, None], d["meter_value"].values * sw, rcond=None)
        fitted_ref = X @ beta
        got = sm.model_params
        names = ["C(hour_of_week)[%d]" % h for h in hows] + bins
        try:
            gb = np.array([got[n] for n in names], float)
        except KeyError as e:
            rec.violation("fitw/params-missing", c, "segment %s: %s" % (name, e))
            continue
        fitted_got = X @ gb
        scale = np.abs(d["meter_value"].values).mean()
        if np.abs(fitted_got - fitted_ref).max() > 1e-6 * scale:
            rec.violation("fitw/wls-differs", c, "segment %s: fitted values differ from weighted least squares by %.3g" % (
                name, np.abs(fitted_got - fitted_ref).max()))
    rec.case(c, len(months) >= 3, ["sub=fitw", "months=%d" % len(months)])


JUDGES = {"cal": judge_calendar, "span": judge_span, "bins": judge_bins, "route": judge_route, "proc": judge_proc,
          "fitw": judge_fitw, "wrapper": judge_wrapper}


def judge(c, rec):
    JUDGES[c["kind"]](c, rec)


def shards(tier, seed):
    q = tier == "quick"
    cal = [{"kind": "cal", "year": y, "tz": z, "type": t} for y in (2020, 2021) for z in ZONES for t in TYPES]
    out = []
    for i in range(4):
        out.append({"sub": "cal", "cases": cal[i::4]})
    out.append({"sub": "span", "n": 300 if q else 3000, "seed": mix(seed, ID, "span")})
    for i in range(3):
        out.append({"sub": "bins", "n": 1200 if q else 15000, "seed": mix(seed, ID, "bins", i)})
    for i in range(4):
        out.append({"sub": "route", "n": 12 if q else 150, "seed": mix(seed, ID, "route", i)})
    out.append({"sub": "proc", "n": 150 if q else 2000, "seed": mix(seed, ID, "proc")})
    for i in range(3):
        out.append({"sub": "fitw", "n": 2 if q else 12, "seed": mix(seed, ID, "fitw", i)})
    wr = [{"kind": "wrapper", "year": 2020, "tz": "America/Chicago", "seed": int(seed) % 1000}]
    if not q:
        wr += [{"kind": "wrapper", "year": 2019, "tz": "Asia/Kolkata", "seed": 5}, {"kind": "wrapper", "year": 2024, "tz": "Europe/Berlin", "seed": 6}]
    for w in wr:
        out.append({"sub": "cal", "cases": [w]})
    return out


STRATS = {"span": span_cases, "bins": bin_cases, "route": route_cases, "proc": proc_cases, "fitw": fitw_cases}


def run_shard(spec, rec):
    if spec["sub"] == "cal":
        from ..hyp import run_judge

        for c in spec["cases"]:
            run_judge(judge, c, rec)
        return
    explore(STRATS[spec["sub"]](), judge, rec, max_examples=spec["n"], seed=spec["seed"],
            shrink=spec["sub"] in ("span", "bins", "proc", "route"))


def replay(case, rec):
    judge(case, rec)


def exhaustive_note(tier, merged):
    return ("sub-domain 'weights'/'how': all hours of 2020 and 2021 x %d zones x 4 segment types enumerated completely; "
            "the generated sub-domains (span, bins, route, proc, fitw) are sampled" % len(ZONES))
