"""C13 — each day is predicted by exactly one sub-model: that of its season and day type."""
import itertools
import json
import os
import math

import numpy as np
import pandas as pd
from hypothesis import strategies as st

from ..gen import params as gp
from ..gen import synth
from ..hyp import explore, mix, run_judge
from ..ref import daily_curve as rc

ID = "C13"
WARM = ["daily"]
RULE = (
    "Three sub-domains. cand (exhaustive): all 16 allow_separate_* flag combinations x reduce_splits_by_gaussian on/off x 4 "
    "season maps x 3 weekday maps x 4 data shapes (full year, no summer days, few weekend days in winter, 330 days); every "
    "candidate string must be an exact cover of the six (day type, season) cells, the unsplit model must be present, no "
    "candidate may isolate a season or day type that a flag forbids or that the data cannot support. route: parameter-built "
    "models with every exact-cover layout (%d) x season/weekday maps predicted over all dates of 2020 and 2021; model_split "
    "and the predicted value must be those of the unique sub-model whose cell contains the date. select: fitted models "
    "(legacy/billing/current profiles, data with weekday and seasonal regimes): best_combination is a candidate, the stored "
    "sub-models are exactly its components, and its selection criterion recomputed from the components is minimal (ties to "
    "the earlier candidate). Non-trivial: cand - configuration yields >= 2 candidates with a multi-component one; route - "
    "layout with >= 2 components; select - fit with >= 2 candidates. Distinct = distinct case descriptions." % len(gp.LAYOUTS)
)
ASSUMPTIONS = [
    "the candidate generator is reached through DailyModel._initialize_data/_combinations for the cross product (fits use the public attributes)",
    "'the data cannot support': a season isolated by a candidate has >= 30 baseline days; a weekend component has >= 8 days",
    "BIC restated as (N(log 2pi + log(loss/N) + 1) + c*K*log(N)^d)/N; other criteria are taken from the library's public selection_criteria",
]

FLAGS = ["allow_separate_summer", "allow_separate_shoulder", "allow_separate_winter", "allow_separate_weekday_weekend"]
SHAPES = ["full", "no_summer", "few_weekend_winter", "short330"]
SEASON_OF = {"su": "summer", "sh": "shoulder", "wi": "winter"}


def shaped_frame(shape, seed=0, season_map=None, weekday_map=None):
    df = synth.daily_frame(n=365, tz="America/Chicago", start_day=365, noise_seed=seed, weekend_shift=0.25, season_shift=0.2)
    if shape == "no_summer":
        smap = _season_map(season_map)
        df = df[[smap[rc.MONTHS[m - 1]] != "summer" for m in df.index.month]]
    elif shape == "few_weekend_winter":
        smap, wmap = _season_map(season_map), _weekday_map(weekday_map)
        is_we_wi = np.array([smap[rc.MONTHS[t.month - 1]] == "winter" and wmap[rc.DAYS[t.dayofweek]] == "weekend" for t in df.index])
        keep = np.ones(len(df), bool)
        idxs = np.nonzero(is_we_wi)[0]
        keep[idxs[5:]] = False  # leave 5 weekend days in winter
        df = df[keep]
    elif shape == "short330":
        df = df.iloc[:330]
    return df


def _season_map(name):
    m = dict(gp.settings_for("daily")["season"])
    if gp.SEASON_MAPS[name or "default"]:
        m.update(gp.SEASON_MAPS[name])
    return m


def _weekday_map(name):
    m = dict(gp.settings_for("daily")["weekday_weekend"])
    if gp.WEEKDAY_MAPS[name or "default"]:
        m.update(gp.WEEKDAY_MAPS[name])
    return m


def day_counts(index, season_map, weekday_map):
    """days per (day type abbr, season abbr) cell, from the calendar maps alone"""
    cnt = {}
    for t in index:
        cell = (rc.DAY_ABBR[weekday_map[rc.DAYS[t.dayofweek]]], rc.SEASON_ABBR[season_map[rc.MONTHS[t.month - 1]]])
        cnt[cell] = cnt.get(cell, 0) + 1
    return cnt


def check_candidates(cands, flags, cnt, key, case, rec):
    """Shared by cand and select: exact cover, unsplit present, nothing forbidden or unsupported."""
    ok = True
    if "fw-su_sh_wi" not in cands:
        rec.violation(key + "/unsplit-missing", case, "candidates %s" % cands[:5])
        ok = False
    if len(set(cands)) != len(cands):
        rec.violation(key + "/duplicate-candidate", case, "candidates %s" % cands)
    seen_sets = set()
    for combo in cands:
        comps = combo.split("__")
        try:
            cover = rc.is_exact_cover(comps)
        except Exception:
            cover = False
        if not cover:
            rec.violation(key + "/not-exact-cover", case, "candidate %r" % combo)
            ok = False
            continue
        fs = frozenset(comps)
        if fs in seen_sets:
            rec.violation(key + "/duplicate-partition", case, "candidate %r repeats an earlier partition" % combo)
        seen_sets.add(fs)
        if combo == "fw-su_sh_wi":
            continue
        for comp in comps:
            d, seasons = comp[:2], comp[3:].split("_")
            if d in ("wd", "we") and not flags["allow_separate_weekday_weekend"]:
                rec.violation(key + "/forbidden-weekday-weekend", case, "candidate %r although allow_separate_weekday_weekend is false" % combo)
                ok = False
            if len(seasons) == 1:
                s = seasons[0]
                if not flags["allow_separate_" + SEASON_OF[s]]:
                    rec.violation(key + "/forbidden-season", case, "candidate %r isolates %s although the flag is false" % (combo, SEASON_OF[s]))
                    ok = False
                ndays = cnt.get(("wd", s), 0) + cnt.get(("we", s), 0)
                if ndays < 30:
                    rec.violation(key + "/unsupported-season", case, "candidate %r isolates %s with %d days" % (combo, SEASON_OF[s], ndays))
                    ok = False
            if d == "we":
                n = sum(cnt.get(("we", s), 0) for s in seasons)
                if n < 8:
                    rec.violation(key + "/unsupported-weekend", case, "candidate %r has a weekend component with %d days" % (combo, n))
                    ok = False
    return ok


# ------------------------------------------------------------------ cand (exhaustive)
def cand_cases():
    out = []
    for fl in itertools.product([False, True], repeat=4):
        for g in (False, True):
            for sm in sorted(gp.SEASON_MAPS):
                for wm in sorted(gp.WEEKDAY_MAPS):
                    for shape in SHAPES:
                        out.append({"kind": "cand", "flags": list(fl), "gaussian": g, "season": sm, "weekday": wm, "shape": shape})
    return out


_FRAMES = {}


def judge_cand(c, rec):
    from opendsm import eemeter as em

    flags = dict(zip(FLAGS, c["flags"]))
    st_ = {"developer_mode": True, "silent_developer_mode": True,
           "split_selection": dict(flags, reduce_splits_by_gaussian=c["gaussian"],
                                   reduce_splits_num_std=[1.4, 0.89] if c["gaussian"] else None)}
    if gp.SEASON_MAPS[c["season"]]:
        st_["season"] = _season_map(c["season"])
        st_["season"].pop("options", None)
    if gp.WEEKDAY_MAPS[c["weekday"]]:
        st_["weekday_weekend"] = _weekday_map(c["weekday"])
        st_["weekday_weekend"].pop("options", None)
    m = em.DailyModel(settings=st_)
    fk = (c["shape"], c["season"], c["weekday"], c.get("seed", 0))
    if fk not in _FRAMES:
        _FRAMES[fk] = shaped_frame(c["shape"], c.get("seed", 0), c["season"], c["weekday"])
    df = _FRAMES[fk]
    m.df_meter, _ = m._initialize_data(df.copy())
    cands = m._combinations()
    cnt = day_counts(df.index, _season_map(c["season"]), _weekday_map(c["weekday"]))
    check_candidates(list(cands), flags, cnt, "cand", c, rec)
    multi = any("__" in x for x in cands)
    rec.case(c, len(cands) >= 2 and multi, ["sub=cand", "shape=" + c["shape"], "gaussian=%d" % c["gaussian"],
                                               "ncand=%s" % ("1" if len(cands) == 1 else "2-9" if len(cands) < 10 else "10+")])


# ------------------------------------------------------------------ route
def route_cases():
    out = []
    for li, layout in enumerate(gp.LAYOUTS):
        for sm in sorted(gp.SEASON_MAPS):
            for wm in sorted(gp.WEEKDAY_MAPS):
                out.append({"kind": "route", "layout": list(layout), "season": sm, "weekday": wm,
                            "family": "billing" if (li % 3 == 0) else "daily", "tz": ["America/Chicago", "Australia/Sydney", "UTC", "Asia/Tokyo"][li % 4]})
    return out


def judge_route(c, rec):
    from opendsm import eemeter as em

    subs = {}
    for i, name in enumerate(c["layout"]):
        subs[name] = {"coefficients": {"model_type": "tidd", "intercept": float(i + 1), "hdd_bp": None, "hdd_beta": None, "hdd_k": None,
                                       "cdd_bp": None, "cdd_beta": None, "cdd_k": None},
                      "temperature_constraints": {"T_min": 0.0, "T_max": 100.0, "T_min_seg": 5.0, "T_max_seg": 95.0}, "f_unc": 1.0}
    case = {"family": c["family"], "submodels": subs, "season": c["season"], "weekday": c["weekday"], "tz": c["tz"]}
    m, doc = gp.build_model(case)
    from ..gen import zoo

    zoo.decoys("billing" if c["family"] == "billing" else "daily")  # unrelated models with other calendar maps
    idx = synth.local_midnights(0, 731, c["tz"], base="2020-01-01")
    T = 50 + 20 * np.sin(np.arange(len(idx)) / 58.0)
    frame = pd.DataFrame({"temperature": T}, index=idx)
    if c["family"] == "billing":
        rep = em.BillingReportingData(frame, is_electricity_data=True)
    else:
        rep = em.DailyReportingData(frame, is_electricity_data=True)
    out = m.predict(rep)
    key = "route"
    if not out.index.equals(rep.df.index) or out.index.has_duplicates:
        rec.violation(key + "/rows", c, "predict() rows differ from the data object's rows (%d vs %d, duplicates=%s)" % (
            len(out), len(rep.df), out.index.has_duplicates))
    else:
        want = rc.route(out.index, list(subs), doc["settings"])
        got = out["model_split"].tolist()
        finite_T = np.isfinite(out["temperature"].values.astype(float))
        for i, (g, w) in enumerate(zip(got, want)):
            if not finite_T[i]:
                continue
            if len(w) != 1 or g != w[0]:
                rec.violation(key + "/wrong-submodel", c, "%s (%s) predicted by %r, its cell belongs to %r" % (
                    out.index[i].date(), out.index[i].day_name(), g, w))
                break
            if out["predicted"].iloc[i] != subs[w[0]]["coefficients"]["intercept"]:
                rec.violation(key + "/wrong-value", c, "%s predicted %r, sub-model %r gives %r" % (
                    out.index[i].date(), out["predicted"].iloc[i], w[0], subs[w[0]]["coefficients"]["intercept"]))
                break
    # the same model asked again about the same period, with a different day's temperature missing: every remaining day is still
    # routed by its own date (two frames of equal span and equal row count are not the same calendar)
    if c["family"] == "daily":
        for gap in (37, 200):
            fr = frame.copy()
            fr.iloc[gap, fr.columns.get_loc("temperature")] = np.nan
            out2 = m.predict(em.DailyReportingData(fr, is_electricity_data=True))
            want2 = rc.route(out2.index, list(subs), doc["settings"])
            fin = np.isfinite(out2["predicted"].values.astype(float))
            bad = [i for i in np.nonzero(fin)[0] if len(want2[i]) != 1 or out2["model_split"].iloc[i] != want2[i][0]
                   or out2["predicted"].iloc[i] != subs[want2[i][0]]["coefficients"]["intercept"]]
            if bad:
                i = bad[0]
                rec.violation(key + "/wrong-submodel/second-call-other-gap", c, "%s (%s) predicted by %r (%r), its cell belongs to %r; %d days wrong" % (
                    out2.index[i].date(), out2.index[i].day_name(), out2["model_split"].iloc[i], out2["predicted"].iloc[i], want2[i], len(bad)))
                break
            if int(fin.sum()) != len(fr) - 1:
                rec.violation(key + "/rows/second-call-other-gap", c, "%d predictions for %d days with a temperature" % (int(fin.sum()), len(fr) - 1))
                break
    rec.note("dates_checked", len(out))
    rec.case(c, len(c["layout"]) >= 2, ["sub=route", "family=" + c["family"], "ncomp=%d" % len(c["layout"])])


# ------------------------------------------------------------------ select (fitted)
@st.composite
def select_cases(draw):
    prof = draw(st.sampled_from(["legacy", "legacy", "billing", "current", "legacy_dev"]))
    c = {"kind": "select", "profile": prof, "seed": draw(st.integers(0, 2 ** 31 - 1)),
         "tz": draw(st.sampled_from(synth.ZONES_SAFE_MIDNIGHT)),
         "n": draw(st.integers(330, 365)), "start_day": draw(st.integers(0, 700)),
         "weekend_shift": draw(st.sampled_from([0.0, 0.0, 0.15, 0.4, -0.3])),
         "season_shift": draw(st.sampled_from([0.0, 0.0, 0.2, 0.5, -0.3])),
         "noise": draw(st.sampled_from([0.02, 0.05, 0.15])),
         "usage": {"base": draw(st.floats(5, 50)), "hs": draw(st.sampled_from([0.0, 0.5, 1.5])), "hb": draw(st.floats(45, 58)),
                   "cs": draw(st.sampled_from([0.0, 0.5, 1.5])), "cb": draw(st.floats(64, 75))},
         "south": draw(st.booleans())}
    # the model object may have been fitted to another meter before (a loop that re-uses one object)
    c["prefit"] = draw(st.sampled_from([None, None, "weekend_offset", "noisy_flat"])) if prof != "current" else draw(st.sampled_from([None, None, None, "weekend_offset"]))
    if prof == "legacy_dev":
        c["criteria"] = draw(st.sampled_from(["bic", "aic", "aicc", "caic", "sabic", "fpe", "rmse_adj", "r_squared_adj"]))
        c["flags"] = draw(st.lists(st.booleans(), min_size=4, max_size=4))
    return c


def ref_bic(loss, N, K, c0, d0):
    if loss <= 0:
        return -math.inf  # an exact fit: nothing can beat it
    nll = -N / 2.0 * (math.log(2 * math.pi) + math.log(loss / N) + 1)
    return (-2 * nll + c0 * K * math.log(N) ** d0) / N


def judge_select(c, rec):
    from opendsm import eemeter as em
    from opendsm.eemeter.models.daily.utilities.selection_criteria import selection_criteria

    df = synth.daily_frame(n=c["n"], tz=c["tz"], start_day=c["start_day"], noise_seed=c["seed"], usage=c["usage"],
                           noise=c["noise"], weekend_shift=c["weekend_shift"], season_shift=c["season_shift"],
                           weather={"south": c["south"]}, additive=c.get("additive", 1.0))
    if c.get("cells"):
        # usage that differs by calendar cell: additive offsets for (months, day type) and a mild climate, so that a short season
        # (a one-month winter under the case's season map) is worth a component of its own
        doy = df.index.dayofyear.values
        rng = np.random.default_rng(c["seed"])
        T = 58 - 9 * np.cos(2 * np.pi * (doy - 15) / 365.0) * (-1 if c["south"] else 1) + rng.normal(0, 7, len(df))
        y = 30 + 1.2 * np.clip(60 - T, 0, None) + 1.5 * np.clip(T - 70, 0, None)
        we = df.index.dayofweek.values >= 5
        for months, daytype, off in c["cells"]:
            sel = np.isin(df.index.month.values, months) & (we if daytype == "we" else ~we if daytype == "wd" else True)
            y = y + np.where(sel, off, 0.0)
        df = pd.DataFrame({"temperature": T, "observed": y + rng.normal(0, 1.0, len(df))}, index=df.index)
    prof = c["profile"]
    if prof == "billing":
        # monthly bills: aggregate the daily series to ~30-day reads
        reads = df["observed"].resample("MS").sum()
        bdf = pd.DataFrame({"observed": reads}).reindex(df.index)
        bdf["temperature"] = df["temperature"]
        obs = pd.Series(np.nan, index=df.index)
        obs[reads.index.intersection(df.index)] = reads[reads.index.intersection(df.index)]
        data = em.BillingBaselineData(pd.DataFrame({"temperature": df["temperature"], "observed": obs}), is_electricity_data=True)
        m = em.BillingModel()
    else:
        data = em.DailyBaselineData(df, is_electricity_data=True)
        if prof == "legacy":
            m = em.DailyModel(model="legacy")
        elif prof == "legacy_dev":
            m = em.DailyModel(model="legacy", settings={"developer_mode": True, "silent_developer_mode": True,
                                                        "split_selection": dict(zip(FLAGS, c["flags"]), criteria=c["criteria"])})
        elif c.get("season_settings"):
            m = em.DailyModel(settings={"season": dict(c["season_settings"])})  # a season map is not a developer setting
        else:
            m = em.DailyModel()
    if c.get("prefit"):
        pre = synth.daily_frame(n=350, tz=c["tz"], start_day=c["start_day"], noise_seed=c["seed"] % 1000 + 7,
                                usage={"base": 30.0, "hs": 1.0, "hb": 55.0, "cs": 1.0, "cb": 68.0} if c["prefit"] == "weekend_offset" else {"base": 12.0, "hs": 0.0, "hb": 50.0, "cs": 0.0, "cb": 70.0},
                                noise=0.02 if c["prefit"] == "weekend_offset" else 0.5, weekend_shift=0.6 if c["prefit"] == "weekend_offset" else 0.0,
                                season_shift=0.0, weather={"south": c["south"]})
        if prof == "billing":
            pobs = pd.Series(np.nan, index=pre.index)
            preads = pre["observed"].resample("MS").sum()
            pobs[preads.index.intersection(pre.index)] = preads[preads.index.intersection(pre.index)]
            pdata = em.BillingBaselineData(pd.DataFrame({"temperature": pre["temperature"], "observed": pobs}), is_electricity_data=True)
        else:
            pdata = em.DailyBaselineData(pre, is_electricity_data=True)
        m.fit(pdata, ignore_disqualification=True)
    m.fit(data, ignore_disqualification=True)
    from ..gen import zoo

    zoo.decoys("billing" if prof == "billing" else "daily")  # unrelated models with other calendar maps exist in every real process
    cands = list(m.combinations)
    # the candidates the fit worked with are all the candidates its settings and data allow (asked for again, independently of the fit)
    try:
        allowed = list(m._combinations())
    except Exception:
        allowed = None
    if allowed is not None and set(allowed) != set(cands):
        rec.violation("select/candidates-not-all-considered", c, "the fit considered %d candidates %s, settings and data allow %d (e.g. %s)" % (
            len(cands), cands[:3], len(allowed), sorted(set(allowed) - set(cands))[:3]))
    ss = m.settings.split_selection
    flags = {f: getattr(ss, f) for f in FLAGS}
    s_dump = m.settings.model_dump()
    meter = m.df_meter
    cnt = day_counts(meter.index, s_dump["season"], s_dump["weekday_weekend"])
    key = "select"
    check_candidates(cands, flags, cnt, key, c, rec)
    best = m.best_combination
    if best not in cands:
        rec.violation(key + "/best-not-a-candidate", c, "best_combination %r" % best)
    else:
        doc = m.to_dict()
        if sorted(doc["submodels"].keys()) != sorted(best.split("__")):
            rec.violation(key + "/submodels-differ-from-best", c, "stored %s, best %r" % (sorted(doc["submodels"]), best))
        # recompute the criterion of every candidate from its components
        crit = {}
        base = None
        for combo in cands:
            comps = combo.split("__")
            fc = [m.fit_components[x] for x in comps]
            N = float(sum(f.N for f in fc))
            TSS = float(sum(f.TSS for f in fc))
            wrmse = math.sqrt(sum(f.wSSE for f in fc) / N)
            if combo == "fw-su_sh_wi":
                base = wrmse
            crit[combo] = (wrmse, TSS, N, len(comps))
        vals = {}
        for combo, (wrmse, TSS, N, K) in crit.items():
            if not base:  # a meter that is constant throughout: every candidate is exact, nothing to rank
                break
            loss = wrmse / base
            ct = str(ss.criteria.value if hasattr(ss.criteria, "value") else ss.criteria).lower()
            if ct == "bic":
                vals[combo] = ref_bic(loss, N, K, ss.penalty_multiplier, ss.penalty_power)
            else:
                vals[combo] = float(selection_criteria(loss, TSS, N, K, ct, ss.penalty_multiplier, ss.penalty_power))
        finite = {k: v for k, v in vals.items() if not math.isnan(v)}
        if finite:
            mn = min(finite.values())
            first = next(k for k in cands if k in finite and finite[k] == mn)
            tol = 1e-9 * max(1.0, abs(mn)) if math.isfinite(mn) else 0.0
            if vals.get(best, float("inf")) > mn + tol:
                rec.violation(key + "/best-not-minimal", c, "best %r has criterion %r, candidate %r has %r" % (best, vals.get(best), first, mn))
            elif best != first and abs(vals[best] - mn) <= 0 and cands.index(best) > cands.index(first):
                rec.violation(key + "/tie-not-to-earlier", c, "best %r, earlier candidate %r has the same criterion" % (best, first))
        # routing on the baseline itself
        out = m.predict(data, ignore_disqualification=True)
        want = rc.route(out.index, list(doc["submodels"]), doc["settings"])
        got = out["model_split"].tolist()
        fin = np.isfinite(out["predicted"].values.astype(float))
        for i in np.nonzero(fin)[0]:
            if len(want[i]) != 1 or got[i] != want[i][0]:
                rec.violation(key + "/wrong-submodel", c, "%s predicted by %r, its cell belongs to %r" % (out.index[i].date(), got[i], want[i]))
                break
        # the stored document pairs every sub-model key with its own coefficients: read back, it predicts the baseline identically
        try:
            m2 = type(m).from_json(m.to_json())
            out2 = m2.predict(data, ignore_disqualification=True)
            a_, b_ = out["predicted"].values.astype(float), out2["predicted"].values.astype(float)
            if len(a_) != len(b_) or not np.array_equal(a_, b_, equal_nan=True) or out["model_split"].tolist() != out2["model_split"].tolist():
                i = int(np.nonzero(~((a_ == b_) | (np.isnan(a_) & np.isnan(b_))))[0][0]) if len(a_) == len(b_) and not np.array_equal(a_, b_, equal_nan=True) else 0
                rec.violation(key + "/stored-split-predicts-differently", c, "%s: fitted model %r (%s), stored and reloaded %r (%s)" % (
                    out.index[i].date(), float(a_[i]), out["model_split"].iloc[i], float(b_[i]) if len(b_) > i else None, out2["model_split"].iloc[i] if len(out2) > i else None))
        except Exception as e:
            from ..core import exc_bucket, short
            if exc_bucket(e) is None:
                raise
            rec.violation(key + "/stored-split-raises/" + exc_bucket(e), c, short(e, 160))
        should = np.isfinite(out["temperature"].values.astype(float)) & (np.isfinite(out["observed"].values.astype(float)) if "observed" in out else True)
        if (should & ~fin).any():
            i = int(np.nonzero(should & ~fin)[0][0])
            rec.violation(key + "/day-without-submodel", c, "%s has temperature and usage but no prediction (its cell belongs to %r; stored sub-models %s)" % (
                out.index[i].date(), want[i], sorted(doc["submodels"])))
    _SEEN.setdefault(json.dumps(c, sort_keys=True), (cands, best))
    first = _SEEN[json.dumps(c, sort_keys=True)]
    if (cands, best) != first:
        rec.violation(key + "/depends-on-history", c, "the same baseline fitted earlier in this process had candidates %s and best %r, now %s and %r" % (
            first[0][:6], first[1], cands[:6], best))
    rec.case(c, len(cands) >= 2, ["sub=select", "profile=" + prof, "reused-object=%d" % bool(c.get("prefit")), "split=%d" % int("__" in (best or "")),
                                  "ncand=%s" % ("1" if len(cands) == 1 else "2-9" if len(cands) < 10 else "10+")])


_SEEN = {}


# ------------------------------------------------------------------ candhist: the candidate set is a function of (baseline, settings) only
def site_frame(site):
    """Sites with overlapping or with well separated season / day-type clusters (what the Gaussian reduction looks at)."""
    rng = np.random.default_rng(site["seed"])
    idx = synth.local_midnights(site.get("start_day", 365), 365, site.get("tz", "America/Chicago"))
    doy = idx.dayofyear.values
    kind = site["kind"]
    if kind == "mild":  # clusters on top of each other; winter differs by a small slope only
        T = 62 + site["amp"] * np.sin(2 * np.pi * (doy - 105) / 365.25) + rng.normal(0, 6, len(idx))
        winter = np.isin(idx.month, [11, 12, 1, 2])
        obs = 30 - site["slope"] * (T - 61) * winter + rng.normal(0, 2.0, len(idx))
    elif kind == "continental":  # clearly separated seasons
        T = 55 + 30 * np.sin(2 * np.pi * (doy - 105) / 365.25) + rng.normal(0, 2, len(idx))
        obs = 20 + 0.9 * np.clip(50 - T, 0, None) + 1.3 * np.clip(T - 68, 0, None) + rng.normal(0, 1.0, len(idx))
    elif kind == "weekend":  # weekday and weekend clusters far apart, seasons alike
        T = 60 + 5 * np.sin(2 * np.pi * (doy - 105) / 365.25) + rng.normal(0, 4, len(idx))
        obs = 30 + 25.0 * (idx.dayofweek.values >= 5) + rng.normal(0, 1.0, len(idx))
    else:  # flat
        T = 58 + 12 * np.sin(2 * np.pi * (doy - 105) / 365.25) + rng.normal(0, 5, len(idx))
        obs = 25 + rng.normal(0, 3.0, len(idx))
    return pd.DataFrame({"temperature": T, "observed": obs}, index=idx)


HIST_SETTINGS = {
    "current_default": None,
    "legacy_gaussian": {"developer_mode": True, "silent_developer_mode": True,
                        "split_selection": {"allow_separate_summer": True, "allow_separate_shoulder": True, "allow_separate_winter": True,
                                            "allow_separate_weekday_weekend": True, "reduce_splits_by_gaussian": True,
                                            "reduce_splits_num_std": [1.4, 0.89]}},
}


def site_candidates(site, sname):
    from opendsm import eemeter as em

    st_ = HIST_SETTINGS[sname]
    m = em.DailyModel() if st_ is None else em.DailyModel(model="legacy", settings=json.loads(json.dumps(st_)))
    m.df_meter, _ = m._initialize_data(site_frame(site))
    return list(m._combinations())


def clean_process_candidates(site, sname):
    """The same question asked in a fresh interpreter that has computed nothing else."""
    import subprocess
    import sys
    from ..env import VERIF

    env = dict(os.environ)
    env["PYTHONPATH"] = os.pathsep.join([os.environ.get("VERIF_REPO", "/repo"), VERIF, os.path.join(VERIF, ".deps")])
    r = subprocess.run([sys.executable, "-m", "vf.props.c13", json.dumps({"site": site, "settings": sname})], cwd=VERIF, env=env,
                       capture_output=True, text=True)
    for line in r.stdout.splitlines():
        if line.startswith("CANDS "):
            return json.loads(line[6:])
    raise RuntimeError("clean-process worker failed: %s" % (r.stderr[-400:] or r.stdout[-400:]))


def judge_candhist(c, rec):
    """A history of candidate computations in this process; every answer must equal the one a fresh process gives for that site."""
    from concurrent.futures import ThreadPoolExecutor

    sites, sname = c["sites"], c["settings"]
    with ThreadPoolExecutor(max_workers=4) as ex:
        clean = list(ex.map(lambda s: clean_process_candidates(s, sname), sites))
    seen_multi = False
    for pos, j in enumerate(c["order"]):
        got = site_candidates(sites[j], sname)
        if got != clean[j]:
            rec.violation("candhist/candidates-depend-on-history", c, "step %d (%s site, after %s): candidates %s, a fresh process gives %s" % (
                pos, sites[j]["kind"], [sites[k]["kind"] for k in c["order"][:pos]], got[:6], clean[j][:6]))
            break
        seen_multi = seen_multi or len(got) > 1
    distinct_sets = len({json.dumps(x) for x in clean})
    rec.case(c, distinct_sets >= 2 and seen_multi, ["sub=candhist", "settings=" + sname, "distinct-candidate-sets=%d" % distinct_sets])


def candhist_cases(seed):
    out = []
    for i, sname in enumerate(["current_default", "legacy_gaussian", "legacy_gaussian", "current_default"]):
        s0 = (seed * 7 + i * 13) % 1000
        sites = [{"kind": "mild", "seed": s0, "amp": 3.0 + (s0 % 3), "slope": 0.3},
                 {"kind": "continental", "seed": s0 + 1},
                 {"kind": "weekend", "seed": s0 + 2},
                 {"kind": "flat", "seed": s0 + 3},
                 {"kind": "mild", "seed": s0 + 4, "amp": 2.0, "slope": 0.45}]
        order = [[0, 3, 4, 1, 0, 4, 2, 3, 0], [4, 0, 2, 4, 3, 1, 0, 4], [3, 0, 1, 2, 0, 3, 4], [0, 2, 0, 1, 3, 4, 0]][i]
        out.append({"kind": "candhist", "sites": sites, "settings": sname, "order": order})
    return out


JUDGES = {"cand": judge_cand, "route": judge_route, "select": judge_select, "candhist": judge_candhist}


def judge(c, rec):
    JUDGES[c["kind"]](c, rec)


def shards(tier, seed):
    q = tier == "quick"
    out = []
    cc = cand_cases()
    for i in range(6):
        out.append({"sub": "list", "cases": cc[i::6]})
    rcases = route_cases()
    if q:
        # quick: every layout once with rotating maps; thorough: the whole product
        rcases = [x for j, x in enumerate(rcases) if j % 12 == (j // 12) % 12]
    for i in range(4):
        out.append({"sub": "list", "cases": rcases[i::4]})
    for i in range(6):
        out.append({"sub": "select", "n": 5 if q else 60, "seed": mix(seed, ID, "select", i)})
    # re-used model objects, in both directions (first meter wants the weekday/weekend split and the judged one does not, and the reverse)
    U = {"base": 25.0, "hs": 1.0, "hb": 55.0, "cs": 1.0, "cb": 68.0}
    reuse = []
    for j, prof in enumerate(["current", "legacy_dev", "current", "legacy_dev"]):
        cse = {"kind": "select", "profile": prof, "seed": 1000 + j + seed % 1000, "tz": "America/Chicago", "n": 365, "start_day": 0,
               "weekend_shift": 0.0 if j < 2 else 0.5, "season_shift": 0.0, "noise": 0.03, "usage": U, "south": False,
               "prefit": "weekend_offset" if j < 2 else "noisy_flat"}
        if prof == "legacy_dev":
            cse["criteria"] = "bic"
            cse["flags"] = [True, True, True, True]
        reuse.append(cse)
    out.append({"sub": "list", "cases": reuse[:2]})
    out.append({"sub": "list", "cases": reuse[2:]})
    # timer loads: usage that is exactly constant within calendar cells (no noise at all) - a split that fits exactly has the lowest
    # possible criterion and must be the one chosen
    exact = []
    for j, (prof, ws, ss) in enumerate([("legacy_dev", 0.75, 0.0), ("current", -0.75, 0.0), ("legacy_dev", 0.0, 0.5), ("legacy", 0.0, 0.0)]):
        cse = {"kind": "select", "profile": prof, "seed": 2000 + j + seed % 1000, "tz": "America/Chicago", "n": 365, "start_day": 0,
               "weekend_shift": ws, "season_shift": ss, "noise": 0.0, "additive": 0.0, "usage": {"base": 24.0, "hs": 0.0, "hb": 50.0, "cs": 0.0, "cb": 70.0},
               "south": False, "prefit": None}
        if prof == "legacy_dev":
            cse["criteria"] = "bic"
            cse["flags"] = [True, True, True, True]
        exact.append(cse)
    out.append({"sub": "list", "cases": exact[:2]})
    out.append({"sub": "list", "cases": exact[2:]})
    # very regular meters: the unsplit model already fits within a percent or two, yet a small systematic weekday/weekend (or seasonal)
    # difference makes a split the better candidate - a low absolute error is no reason to skip the comparison
    regular = []
    for j, (prof, ws, ss) in enumerate([("current", -0.03, 0.0), ("legacy_dev", 0.04, 0.0), ("current", 0.0, 0.04)]):
        cse = {"kind": "select", "profile": prof, "seed": 4000 + j + seed % 1000, "tz": "America/Chicago", "n": 365, "start_day": 0,
               "weekend_shift": ws, "season_shift": ss, "noise": 0.003, "additive": 0.0, "usage": {"base": 24.0, "hs": 0.6, "hb": 52.0, "cs": 0.4, "cb": 68.0},
               "south": False, "prefit": None}
        if prof == "legacy_dev":
            cse["criteria"] = "bic"
            cse["flags"] = [True, True, True, True]
        regular.append(cse)
    out.append({"sub": "list", "cases": regular[:2]})
    out.append({"sub": "list", "cases": regular[2:]})
    # short seasons: a one-month winter (only January) / a one-month summer (only July) under a custom season map, with weekends that
    # behave differently in that month - the chosen split then has a component of about ten days
    short = []
    for j, (smap, months) in enumerate([({"february": "shoulder", "november": "shoulder", "december": "shoulder"}, [1]),
                                        ({"june": "shoulder", "august": "shoulder", "september": "shoulder"}, [7])]):
        short.append({"kind": "select", "profile": "current", "seed": 3000 + j + seed % 1000, "tz": "America/Chicago", "n": 365, "start_day": 0,
                      "weekend_shift": 0.0, "season_shift": 0.0, "noise": 0.0, "usage": {"base": 30.0, "hs": 0.0, "hb": 50.0, "cs": 0.0, "cb": 70.0},
                      "south": bool(j), "prefit": None, "season_settings": smap,
                      "cells": [[list(range(1, 13)), "we", 25.0], [months, "we", 40.0], [months, "wd", 15.0]]})
    for cse in short:
        out.append({"sub": "list", "cases": [cse]})
    ch = candhist_cases(seed)
    for cse in (ch[:2] if q else ch):
        out.append({"sub": "list", "cases": [cse]})
    return out


def run_shard(spec, rec):
    if spec["sub"] == "list":
        for c in spec["cases"]:
            run_judge(judge, c, rec)
        return
    explore(select_cases(), judge, rec, max_examples=spec["n"], seed=spec["seed"], shrink=False)
    # the first baselines of this shard again, after everything else the process has fitted: same candidates, same choice
    for key in list(_SEEN)[:2]:
        run_judge(judge, json.loads(key), rec)


def replay(case, rec):
    judge(case, rec)


def exhaustive_note(tier, merged):
    return ("sub-domain 'cand': 16 flag combinations x gaussian on/off x 4 season maps x 3 weekday maps x 4 data shapes "
            "enumerated completely; 'route': all %d exact-cover layouts (thorough: x all 12 map pairs, every date of 2020-2021); "
            "'select' is sampled" % len(gp.LAYOUTS))


if __name__ == "__main__":
    # clean-process worker of the candhist sub-domain: python -m vf.props.c13 '{"site": ..., "settings": ...}'
    import sys as _sys

    from .. import env as _env

    _env.setup()
    import contextlib as _ctx
    import io as _io

    _job = json.loads(_sys.argv[1])
    with _ctx.redirect_stdout(_io.StringIO()):
        _c = site_candidates(_job["site"], _job["settings"])
    print("CANDS " + json.dumps(_c))
