"""Evidence files: built from the merged recorder, validated against the schema, then written."""
import json
import os

from .env import VERIF

SCHEMA = "/root/.vp/EVIDENCE.schema.json"


def build(prop, pid, tier, seed, merged, wall, nviol, replayed, shard_specs, dumps, known_entries):
    cov = {
        "evaluations": int(merged["evaluations"]),
        "distinct_nontrivial": len(merged["nontrivial"]),
        "rule": prop.RULE,
        "samples": merged["samples"][:8],
        "classes": dict(sorted(merged["classes"].items())),
        "excluded_known": dict(merged["excluded_known"]),
        "exceptions_expected": dict(merged["expected_exc"]),
        "notes": dict(merged["notes"]),
        "truncated": bool(merged["truncated"]),
        "replayed_corpus_files": replayed,
        "shards": len(shard_specs),
        "shard_wall_s": [round(d.get("wall_s", 0.0), 1) for d in dumps],
        "known_findings_listed": [e["key"] for e in known_entries if e.get("status") == "known"],
        "violation_keys": sorted(merged["failures"].keys()),
        "tree": os.environ.get("VERIF_TREE_HASH", ""),
        "repo": os.environ.get("VERIF_REPO", "/repo"),
    }
    ex = getattr(prop, "exhaustive_note", None)
    if ex:
        e = ex(tier, merged)
        if e:
            cov["exhaustive"] = True
            cov["exhaustive_scope"] = e
    return {
        "property_id": pid,
        "tier": tier,
        "seed": int(seed),
        "level": "exploration",
        "coverage": cov,
        "assumptions": list(getattr(prop, "ASSUMPTIONS", [])),
        "wall_s": round(float(wall), 2),
        "violations": int(nviol),
    }


def validate(ev):
    """Minimal re-statement of EVIDENCE.schema.json for level=exploration; uses jsonschema if present."""
    try:
        import jsonschema  # type: ignore

        with open(SCHEMA) as fh:
            jsonschema.validate(ev, json.load(fh))
        return True
    except ImportError:
        pass
    except Exception:
        return False
    try:
        assert isinstance(ev["property_id"], str)
        assert ev["tier"] in ("quick", "thorough")
        assert isinstance(ev["seed"], int)
        assert ev["level"] == "exploration"
        assert isinstance(ev["wall_s"], (int, float))
        c = ev["coverage"]
        assert isinstance(c["evaluations"], int) and c["evaluations"] >= 1
        assert isinstance(c["distinct_nontrivial"], int) and c["distinct_nontrivial"] >= 2
        assert isinstance(c["rule"], str)
        assert isinstance(c["samples"], list) and len(c["samples"]) >= 1
        assert isinstance(ev.get("violations", 0), int)
        assert all(isinstance(a, str) for a in ev.get("assumptions", []))
        return True
    except (AssertionError, KeyError, TypeError):
        return False


def write(pid, ev):
    ok = validate(ev)
    d = os.path.join(VERIF, "evidence")
    if os.path.realpath(os.environ.get("VERIF_REPO", "/repo")) != "/repo":
        # sensitivity runs against a scratch tree must not overwrite the evidence of /repo
        d = os.path.join(VERIF, ".cache", "evidence-scratch")
    os.makedirs(d, exist_ok=True)
    with open(os.path.join(d, "%s.json" % pid), "w") as fh:
        json.dump(ev, fh, indent=1, sort_keys=True)
        fh.write("\n")
    return ok
