"""Process environment for every check: which tree is under test, numba cache, hook guard.

Must be imported (and `setup()` called) before numpy / pandas / opendsm are imported.
"""
import hashlib
import os
import shutil
import sys

VERIF = os.path.dirname(os.path.dirname(os.path.abspath(__file__)))
GUARD = "OPENDSM_EEMETER_VERIF"
_state = {}


def repo_dir():
    return os.environ.get("VERIF_REPO", "/repo")


def tree_hash(root=None):
    root = root or repo_dir()
    h = hashlib.sha1()
    base = os.path.join(root, "opendsm")
    for dp, dn, fn in sorted(os.walk(base)):
        dn.sort()
        for f in sorted(fn):
            if f.endswith(".py"):
                p = os.path.join(dp, f)
                h.update(os.path.relpath(p, base).encode())
                with open(p, "rb") as fh:
                    h.update(fh.read())
    return h.hexdigest()[:16]


def setup(threads=1):
    """Idempotent. Sets env vars, sys.path, numba cache dir keyed by the tree contents."""
    if _state.get("done"):
        return _state
    root = repo_dir()
    if not os.path.isdir(os.path.join(root, "opendsm")):
        raise SystemExit("harness error: no opendsm/ under %s" % root)
    os.environ[GUARD] = "1"
    os.environ.setdefault("PYTHONHASHSEED", "0")
    os.environ["PYTHONWARNINGS"] = "ignore"
    for v in ("OMP_NUM_THREADS", "MKL_NUM_THREADS", "OPENBLAS_NUM_THREADS", "NUMBA_NUM_THREADS"):
        os.environ[v] = str(threads)
    th = os.environ.get("VERIF_TREE_HASH") or tree_hash(root)
    os.environ["VERIF_TREE_HASH"] = th
    cache_root = os.path.join(VERIF, ".cache")
    cdir = os.path.join(cache_root, "numba-" + th)
    os.makedirs(cdir, exist_ok=True)
    os.environ["NUMBA_CACHE_DIR"] = cdir
    # the tree under test wins over the editable install
    if root not in sys.path:
        sys.path.insert(0, root)
    pp = os.environ.get("PYTHONPATH", "")
    parts = [p for p in pp.split(os.pathsep) if p]
    for p in (os.path.join(VERIF, ".deps"), VERIF, root):
        if p in parts:
            parts.remove(p)
        parts.insert(0, p)
    os.environ["PYTHONPATH"] = os.pathsep.join(parts)
    deps = os.path.join(VERIF, ".deps")
    if os.path.isdir(deps) and deps not in sys.path:
        sys.path.append(deps)
    _state.update(done=True, repo=root, tree=th, cache=cdir)
    return _state


def prune_caches(keep=3):
    cache_root = os.path.join(VERIF, ".cache")
    if not os.path.isdir(cache_root):
        return
    ds = [os.path.join(cache_root, d) for d in os.listdir(cache_root) if d.startswith("numba-")]
    ds.sort(key=lambda p: os.path.getmtime(p), reverse=True)
    for d in ds[keep:]:
        shutil.rmtree(d, ignore_errors=True)


def quiet():
    """Silence library chatter (after imports)."""
    import logging
    import warnings

    warnings.filterwarnings("ignore")
    logging.disable(logging.CRITICAL)


def check_import_origin():
    import opendsm

    got = os.path.realpath(os.path.dirname(os.path.dirname(opendsm.__file__)))
    want = os.path.realpath(repo_dir())
    if got != want:
        raise SystemExit("harness error: opendsm imported from %s, expected %s" % (got, want))
