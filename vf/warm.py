"""Compile the numba kernels used by a family once, so that workers find a warm cache."""
import sys

from . import env

env.setup()
env.quiet()


def daily():
    from .gen import synth
    from opendsm import eemeter as em

    df = synth.daily_frame(n=365)
    env.quiet()
    data = em.DailyBaselineData(df, is_electricity_data=True)
    m = em.DailyModel().fit(data, ignore_disqualification=True)
    m.predict(data, ignore_disqualification=True)
    em.DailyModel.from_json(m.to_json())


def hourly():
    from .gen import synth
    from opendsm import eemeter as em

    df = synth.hourly_frame(days=120)
    env.quiet()
    data = em.HourlyBaselineData(df, is_electricity_data=True)
    m = em.HourlyModel().fit(data, ignore_disqualification=True)
    m.predict(data, ignore_disqualification=True)


def main(kinds):
    for k in kinds:
        globals()[k]()


if __name__ == "__main__":
    main(sys.argv[1:])
