"""Subprocess worker for C03: executes a list of actions and prints one JSON line with the digests.

usage: python -m vf.c03_worker '<json job>'   (environment prepared by the parent: PYTHONHASHSEED, *_NUM_THREADS)
job = {"actions": [["fit", meter], ["junk", name], ...]}; meter = zoo baseline description.
"""
import hashlib
import json
import os
import sys


def _fit_action(act, b, out, models, reuse_pool, zoo, hashlib, np, contextlib, io):
        with contextlib.redirect_stdout(io.StringIO()):
            data = zoo.build_baseline(b)
            pkey = (b["family"], b["profile"])
            if len(act) > 3 and act[3] and pkey in reuse_pool:
                m = reuse_pool[pkey]  # the same object is fitted again; it no longer is the earlier meter's model
                for k in [k for k, v in models.items() if v[0] is m]:
                    del models[k]
            else:
                m = zoo.new_model(b)
            reuse_pool[pkey] = m
            if b["family"] == "caltrack":
                m.fit(data)
            else:
                m.fit(data, ignore_disqualification=True)
            js = m.to_json()
            rep = zoo.build_reporting(b, {"start_day": b["start_day"] + 400, "n": 60, "noise_seed": 77, "observed": True, "T_shift": 0.0, "T_scale": 1.0})
            p = zoo.predict(m, b, rep)
        h1 = hashlib.sha256(js.encode()).hexdigest()
        cols = [c for c in ("predicted", "predicted_unc", "heating_load", "cooling_load", "predicted_uncertainty") if c in p.columns]
        h2 = hashlib.sha256(b"".join(np.ascontiguousarray(p[c].values.astype("float64")).tobytes() for c in cols)).hexdigest()
        out.append({"meter": act[2], "model": h1, "prediction": h2})
        models[act[2]] = (m, b, rep)


def main():
    job = json.loads(sys.argv[1])
    keep_threads = {k: os.environ.get(k) for k in ("OMP_NUM_THREADS", "MKL_NUM_THREADS", "OPENBLAS_NUM_THREADS")}
    from . import env

    env.setup()
    # env.setup pins BLAS threads to 1; restore what the schedule asked for (None = leave unset)
    if job.get("threads") != "pinned":
        for k, v in keep_threads.items():
            if v is None:
                os.environ.pop(k, None)
            else:
                os.environ[k] = v
    env.quiet()
    import contextlib
    import io

    import numpy as np

    from .gen import zoo

    out = []
    models = {}
    reuse_pool = {}
    for act in job["actions"]:
        kind = act[0]
        if kind == "fit":
            b = act[1]
            try:
                _fit_action(act, b, out, models, reuse_pool, zoo, hashlib, np, contextlib, io)
            except Exception as e:  # reported to the parent: raising here but not in the reference is a difference
                import traceback

                tb = traceback.extract_tb(e.__traceback__)
                lib = [f for f in tb if "/opendsm/" in f.filename]
                where = ("%s:%s" % (lib[-1].filename.split("/opendsm/")[-1], lib[-1].name)) if lib else "harness"
                out.append({"meter": act[2], "model": None, "prediction": None, "error": "%s@%s: %s" % (type(e).__name__, where, str(e)[:120]), "lib": bool(lib)})
            continue
        if kind == "repredict":
            if act[1] in models:
                m, b, rep = models[act[1]]
                with contextlib.redirect_stdout(io.StringIO()):
                    p = zoo.predict(m, b, rep)
                cols = [c for c in ("predicted", "predicted_unc", "heating_load", "cooling_load", "predicted_uncertainty") if c in p.columns]
                h2 = hashlib.sha256(b"".join(np.ascontiguousarray(p[c].values.astype("float64")).tobytes() for c in cols)).hexdigest()
                out.append({"meter": act[1], "model": None, "prediction": h2})
        elif kind == "junk":
            name = act[1]
            with contextlib.redirect_stdout(io.StringIO()):
                if name == "rng":
                    np.random.seed(act[2])
                    np.random.rand(1000)
                elif name == "settings":
                    from opendsm import eemeter as em

                    em.DailyModel(settings={"developer_mode": True, "silent_developer_mode": True, "regularization_alpha": 0.1})
                    em.HourlyModel(settings={"seed": 99})
                elif name == "validation_error":
                    from opendsm import eemeter as em

                    try:
                        em.DailyModel(settings={"regularization_alpha": 0.5})
                    except Exception:
                        pass
                elif name == "other_fit":
                    from .gen import synth
                    from opendsm import eemeter as em

                    df = synth.daily_frame(n=340, noise_seed=act[2])
                    em.DailyModel(model="legacy").fit(em.DailyBaselineData(df, is_electricity_data=True), ignore_disqualification=True)
    # a portfolio run writes its models at the end: every model fitted in this process is serialised again after all the others
    for name, (m, b, rep) in models.items():
        with contextlib.redirect_stdout(io.StringIO()):
            js = m.to_json()
        out.append({"meter": name, "model": hashlib.sha256(js.encode()).hexdigest(), "prediction": None, "at_end": True})
    print("C03RESULT " + json.dumps(out))


if __name__ == "__main__":
    main()
