"""Deterministic synthetic meters: a compact, JSON-able description -> pandas frames.

All randomness comes from `noise_seed` inside the description (drawn by Hypothesis)."""
import numpy as np
import pandas as pd

ZONES_WHOLE_HOUR = ["UTC", "America/Chicago", "America/Los_Angeles", "America/New_York", "Europe/London", "Europe/Berlin",
                    "Australia/Sydney", "Pacific/Auckland", "Asia/Tokyo", "America/Phoenix", "America/Sao_Paulo",
                    "Africa/Johannesburg"]
ZONES_SAFE_MIDNIGHT = ["UTC", "America/Chicago", "America/Los_Angeles", "America/New_York", "Europe/London", "Europe/Berlin",
                       "Australia/Sydney", "Pacific/Auckland", "Asia/Tokyo", "America/Phoenix", "Africa/Johannesburg",
                       "Asia/Kolkata"]


def local_midnights(start_day, n, tz, base="2017-01-01"):
    d0 = pd.Timestamp(base) + pd.Timedelta(days=int(start_day))
    idx = pd.DatetimeIndex([d0 + pd.Timedelta(days=i) for i in range(int(n))])
    return idx.tz_localize(tz, nonexistent="shift_forward", ambiguous=True)


def hourly_index(start_day, days, tz, base="2017-01-01", start_hour=0, hours=None):
    """Every real hour from local 00:00 (+start_hour) of the first day, `days` local days long."""
    d0 = (pd.Timestamp(base) + pd.Timedelta(days=int(start_day))).tz_localize(tz, nonexistent="shift_forward", ambiguous=True)
    d1 = (pd.Timestamp(base) + pd.Timedelta(days=int(start_day) + int(days))).tz_localize(tz, nonexistent="shift_forward", ambiguous=True)
    u0 = d0.tz_convert("UTC") + pd.Timedelta(hours=int(start_hour))
    u1 = d1.tz_convert("UTC")
    if hours is not None:
        return pd.date_range(u0, periods=int(hours), freq="h").tz_convert(tz)
    return pd.date_range(u0, u1, freq="h", inclusive="left").tz_convert(tz)


def curve(T, p):
    """Piecewise heating/cooling curve: base + hs*max(hb-T,0) + cs*max(T-cb,0)."""
    T = np.asarray(T, float)
    return p.get("base", 20.0) + p.get("hs", 0.0) * np.clip(p.get("hb", 55.0) - T, 0, None) + p.get("cs", 0.0) * np.clip(
        T - p.get("cb", 68.0), 0, None)


def daily_temperature(idx, w, rng):
    doy = idx.dayofyear.values
    south = -1.0 if w.get("south") else 1.0
    T = w.get("mean", 55.0) - south * w.get("amp", 25.0) * np.cos((doy - 15) / 365.25 * 2 * np.pi)
    e = rng.normal(0, w.get("sd", 5.0), len(idx))
    rho = w.get("rho", 0.6)
    for i in range(1, len(e)):
        e[i] = rho * e[i - 1] + np.sqrt(1 - rho * rho) * e[i]
    return T + e


def daily_frame(n=365, tz="America/Chicago", start_day=365, noise_seed=0, weather=None, usage=None, noise=0.05,
                additive=1.0, weekend_shift=0.0, season_shift=0.0, outliers=0, integer=False):
    """Daily frame with columns temperature, observed; index at local midnight."""
    rng = np.random.default_rng(int(noise_seed))
    idx = local_midnights(start_day, n, tz)
    T = daily_temperature(idx, weather or {}, rng)
    y = curve(T, usage or {"base": 20.0, "hs": 1.2, "hb": 50.0, "cs": 0.8, "cb": 68.0})
    y = y * (1 + weekend_shift * (idx.dayofweek.values >= 5)) * (1 + season_shift * np.isin(idx.month.values, [6, 7, 8, 9]))
    y = y * (1 + rng.normal(0, noise, len(idx))) + rng.normal(0, additive, len(idx))
    for _ in range(int(outliers)):
        y[rng.integers(0, len(y))] *= rng.uniform(2, 4)
    if integer:
        y = np.round(y)
    return pd.DataFrame({"temperature": T, "observed": y}, index=idx)


def hourly_frame(days=365, tz="America/Chicago", start_day=365, noise_seed=1, ghi=False, weather=None, usage=None,
                 noise=0.05, start_hour=0, hours=None):
    rng = np.random.default_rng(int(noise_seed))
    idx = hourly_index(start_day, days, tz, start_hour=start_hour, hours=hours)
    w = weather or {}
    doy = idx.dayofyear.values
    south = -1.0 if w.get("south") else 1.0
    T = (w.get("mean", 55.0) - south * w.get("amp", 25.0) * np.cos((doy - 15) / 365.25 * 2 * np.pi)
         + w.get("diurnal", 8.0) * np.sin((idx.hour.values - 9) / 24 * 2 * np.pi) + rng.normal(0, w.get("sd", 2.0), len(idx)))
    shape = 1 + 0.5 * np.sin((idx.hour.values - 14) / 24 * 2 * np.pi) + 0.2 * (idx.dayofweek.values >= 5)
    y = shape * curve(T, usage or {"base": 20.0, "hs": 1.2, "hb": 50.0, "cs": 0.8, "cb": 68.0}) / 24 + rng.normal(0, noise, len(idx))
    d = pd.DataFrame({"temperature": T, "observed": y}, index=idx)
    if ghi:
        g = np.clip(800 * np.sin((idx.hour.values - 6) / 12 * np.pi), 0, None) * (0.6 + 0.4 * rng.random(len(idx)))
        d["ghi"] = g
        d["observed"] = d["observed"] - g / 2000
    return d


def billing_calendar(start_day, lengths, tz, base="2017-01-01"):
    """Read dates at local midnight: first read at start_day, then cumulative period lengths (days)."""
    days = np.concatenate([[0], np.cumsum(lengths)]).astype(int)
    d0 = pd.Timestamp(base) + pd.Timedelta(days=int(start_day))
    idx = pd.DatetimeIndex([d0 + pd.Timedelta(days=int(d)) for d in days])
    return idx.tz_localize(tz, nonexistent="shift_forward", ambiguous=True)
