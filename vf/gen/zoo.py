"""Fitted-model zoo: JSON-able descriptions of (family, profile, baseline) -> data objects and fitted models.

Inputs are memoised per process (a pure function of the description); callers receive deep copies of models."""
import contextlib
import copy
import io

import numpy as np
import pandas as pd
from hypothesis import strategies as st

from ..core import canon
from . import params as gp
from . import synth

FAMILIES = ["daily", "billing", "hourly", "caltrack"]

DAILY_PROFILES = {
    "legacy": ("legacy", None),
    "legacy_season": ("legacy", {"season": dict(gp.SEASON_MAPS["shifted"])}),
    "legacy_weekday": ("legacy", {"weekday_weekend": dict(gp.WEEKDAY_MAPS["fri_sat"])}),
    "legacy_alpha": ("legacy", {"uncertainty_alpha": 0.2}),
    "legacy_dev_splits": ("legacy", {"developer_mode": True, "silent_developer_mode": True,
                                     "split_selection": {"allow_separate_summer": True, "allow_separate_shoulder": True,
                                                         "allow_separate_winter": True, "allow_separate_weekday_weekend": True}}),
    "legacy_dev_smooth": ("legacy", {"developer_mode": True, "silent_developer_mode": True, "allow_smooth_model": True}),
    "legacy_dev_chdd": ("legacy", {"developer_mode": True, "silent_developer_mode": True, "full_model": "c_hdd_tidd"}),
    "legacy_dev_tidd": ("legacy", {"developer_mode": True, "silent_developer_mode": True, "full_model": "tidd"}),
    "legacy_dev_alpha_all": ("legacy", {"developer_mode": True, "silent_developer_mode": True, "alpha_final_type": "all"}),
    "legacy_dev_alpha_none": ("legacy", {"developer_mode": True, "silent_developer_mode": True, "alpha_final_type": None,
                                         "final_bounds_scalar": None}),
    "legacy_dev_aic": ("legacy", {"developer_mode": True, "silent_developer_mode": True,
                                  "split_selection": {"criteria": "aic", "allow_separate_weekday_weekend": True}}),
    "legacy_dev_step": ("legacy", {"developer_mode": True, "silent_developer_mode": True, "initial_step_percentage": 0.25}),
    "current": ("current", None),
    "current_dev_nosmooth": ("current", {"developer_mode": True, "silent_developer_mode": True, "allow_smooth_model": False}),
}
CHEAP_DAILY = [k for k in DAILY_PROFILES if k.startswith("legacy")]
BILLING_PROFILES = {
    "billing": None,
    "billing_season": {"season": dict(gp.SEASON_MAPS["two_season"])},
    "billing_dev_splits": {"developer_mode": True, "silent_developer_mode": True,
                           "split_selection": {"allow_separate_summer": True, "allow_separate_winter": True}},
    "billing_dev_smooth": {"developer_mode": True, "silent_developer_mode": True, "allow_smooth_model": True},
}
HOURLY_PROFILES = {
    "hourly_default": {"seed": 7},
    "hourly_nonsolar_obj": ("nonsolar", {"seed": 3}),
    "hourly_solar_obj": ("solar", {"seed": 3}),
    "hourly_features": {"seed": 5, "train_features": ["temperature"]},
    "hourly_robust": {"seed": 5, "scaling_method": "robustscaler"},
    "hourly_edge_rate": {"seed": 5, "temperature_bin": {"edge_bin_rate": 0.05}},
    "hourly_adaptive": {"seed": 5, "elasticnet": {"adaptive_weights": True, "adaptive_weight_max_iter": 5, "adaptive_weight_tol": 1e-3}},
    "hourly_adaptive_thresholds": {"seed": 5, "cvrmse_threshold": 0.05, "pnrmse_threshold": 0.05,
                                   "elasticnet": {"adaptive_weights": True, "adaptive_weight_max_iter": 3, "adaptive_weight_tol": 1e-2}},
    "hourly_supplemental": {"seed": 5, "supplemental_time_series_columns": ["wind", "humidity", "cloud", "aux_b", "aux_a"]},
    "hourly_supplemental_cat": {"seed": 5, "supplemental_time_series_columns": ["wind", "cloud"], "supplemental_categorical_columns": ["open", "shift"]},
    # column names as they come out of a utility's export: mixed case, a blank inside
    "hourly_supplemental_names": {"seed": 5, "supplemental_time_series_columns": ["Wind_Speed", "RH pct"], "supplemental_categorical_columns": ["Open"]},
    "hourly_random_sel": {"seed": 5, "elasticnet": {"selection": "random"}},
    "hourly_min_hours0": {"seed": 5, "min_daily_training_hours": 0},
    "hourly_clusters": {"seed": 5, "temporal_cluster": {"n_cluster_upper": 8, "score_metric": "silhouette"}},
    "hourly_thresholds": {"seed": 5, "cvrmse_threshold": 0.05, "pnrmse_threshold": 0.05},
    "hourly_equal_width": {"seed": 5, "temperature_bin": {"method": "equal_bin_width", "n_bins": 6, "bin_width": None, "include_edge_bins": False,
                                                           "edge_bin_rate": None, "edge_bin_percent": None}},
    "hourly_equal_count": {"seed": 5, "temperature_bin": {"method": "equal_sample_count", "n_bins": 6, "bin_width": None, "include_edge_bins": False,
                                                           "edge_bin_rate": None, "edge_bin_percent": None}},
    "hourly_no_bins": {"seed": 5, "temperature_bin": None},
    "hourly_seed0": {"seed": 0},
    "hourly_seed_alt": {"seed": 1234},
    "hourly_random_sel_alt": {"seed": 1234, "elasticnet": {"selection": "random"}},
    "hourly_features_reordered": {"seed": 5, "train_features": ["ghi", "temperature"]},
    "hourly_no_edge_bins": {"seed": 5, "temperature_bin": {"include_edge_bins": False, "edge_bin_rate": None, "edge_bin_percent": None}},
}


@st.composite
def baseline(draw, family=None, profiles=None, cheap=True, full_year=True, tzs=None):
    fam = family or draw(st.sampled_from(FAMILIES))
    b = {"family": fam}
    if fam == "daily":
        b["profile"] = draw(st.sampled_from(profiles or (CHEAP_DAILY if cheap else list(DAILY_PROFILES))))
    elif fam == "billing":
        b["profile"] = draw(st.sampled_from(profiles or list(BILLING_PROFILES)))
    elif fam == "hourly":
        b["profile"] = draw(st.sampled_from(profiles or list(HOURLY_PROFILES)))
        b["ghi"] = draw(st.booleans()) if b["profile"] not in ("hourly_solar_obj", "hourly_features_reordered") else True
        if b["profile"] == "hourly_nonsolar_obj":
            b["ghi"] = False
    else:
        b["profile"] = "caltrack"
    b["tz"] = draw(st.sampled_from(tzs or synth.ZONES_SAFE_MIDNIGHT))
    b["start_day"] = draw(st.integers(0, 700))
    if fam == "caltrack":
        b["n"] = draw(st.integers(120, 200)) if not full_year else 365
    else:
        b["n"] = 365 if full_year else draw(st.integers(330, 365))
    b["noise_seed"] = draw(st.integers(0, 2 ** 20))
    b["usage"] = {"base": draw(st.floats(5, 50)), "hs": draw(st.sampled_from([0.0, 0.4, 1.2, 3.0])), "hb": draw(st.floats(45, 58)),
                  "cs": draw(st.sampled_from([0.0, 0.4, 1.2, 3.0])), "cb": draw(st.floats(64, 75))}
    b["noise"] = draw(st.sampled_from([0.02, 0.05, 0.15]))
    b["weekend_shift"] = draw(st.sampled_from([0.0, 0.0, 0.3]))
    b["season_shift"] = draw(st.sampled_from([0.0, 0.0, 0.3]))
    b["south"] = draw(st.booleans())
    b["electric"] = draw(st.booleans())
    return b


SUPPLEMENTAL = {"hourly_supplemental": {"ts": ["wind", "humidity", "cloud", "aux_b", "aux_a"], "cat": []},
                "hourly_supplemental_cat": {"ts": ["wind", "cloud"], "cat": ["open", "shift"]},
                "hourly_supplemental_names": {"ts": ["Wind_Speed", "RH pct"], "cat": ["Open"]}}


def raw_frame(b):
    if b["family"] in ("daily", "billing"):
        return synth.daily_frame(n=b["n"], tz=b["tz"], start_day=b["start_day"], noise_seed=b["noise_seed"], usage=b["usage"],
                                 noise=b["noise"], weekend_shift=b["weekend_shift"], season_shift=b["season_shift"],
                                 weather={"south": b["south"]})
    df = synth.hourly_frame(days=b["n"], tz=b["tz"], start_day=b["start_day"], noise_seed=b["noise_seed"], usage=b["usage"],
                            noise=b["noise"] * 2, ghi=bool(b.get("ghi")), weather={"south": b["south"]})
    if b.get("edge_gaps"):
        # missing hours in the first and in the last day (closer to the ends of the series than the interpolation's lags)
        ti, oi = df.columns.get_loc("temperature"), df.columns.get_loc("observed")
        df.iloc[2:5, ti] = np.nan
        df.iloc[6:8, oi] = np.nan
        df.iloc[-5:-3, ti] = np.nan
        df.iloc[-3:-2, oi] = np.nan
    if b.get("net_export"):
        df["observed"] = df["observed"] - 1.5 * float(df["observed"].mean())
    if b.get("weekly_gap"):
        # the same hour of the same weekday is missing in every week (a scheduled meter-reading outage; 0.6 % of the hours)
        wd, hr = b["weekly_gap"]
        sel = (df.index.dayofweek.values == wd) & (df.index.hour.values == hr)
        df.loc[df.index[sel], "observed"] = np.nan
    if b.get("profile") in SUPPLEMENTAL:
        # supplemental columns (complete, deterministic functions of the clock and the seed) the profile trains on
        rng = np.random.default_rng(b["noise_seed"] + 4242)
        k = np.arange(len(df))
        hod = df.index.hour.values
        for name in SUPPLEMENTAL[b["profile"]]["ts"]:
            ph = sum(map(ord, name)) % 17
            df[name] = 5.0 + 3.0 * np.sin((k + ph) / (20.0 + ph)) + rng.gamma(2.0, 1.0, len(df))
        for name in SUPPLEMENTAL[b["profile"]]["cat"]:
            df[name] = ((hod >= 8) & (hod < 18)).astype(int) if name.lower() == "open" else (df.index.dayofweek.values % 3)
        obs = df["observed"].values
        df["observed"] = obs * (1 + 0.02 * df[SUPPLEMENTAL[b["profile"]]["ts"][0]].values / 8.0)
    return df


def data_classes(family):
    from opendsm import eemeter as em

    return {
        "daily": (em.DailyBaselineData, em.DailyReportingData),
        "billing": (em.BillingBaselineData, em.BillingReportingData),
        "hourly": (em.HourlyBaselineData, em.HourlyReportingData),
        "caltrack": (em.HourlyCaltrackBaselineData, em.HourlyCaltrackReportingData),
    }[family]


def model_class(family):
    from opendsm import eemeter as em

    return {"daily": em.DailyModel, "billing": em.BillingModel, "hourly": em.HourlyModel, "caltrack": em.HourlyCaltrackModel}[family]


def billing_frame(df):
    """Monthly reads from a daily frame: usage on the first day of each period, NaN elsewhere, final NaN convention."""
    obs = pd.Series(np.nan, index=df.index)
    starts = [0]
    month = df.index[0].month
    for i, t in enumerate(df.index):
        if t.month != month:
            starts.append(i)
            month = t.month
    for a, z in zip(starts, starts[1:] + [len(df)]):
        if z - a >= 25 or a == 0 or z == len(df):
            obs.iloc[a] = df["observed"].iloc[a:z].sum()
    return pd.DataFrame({"temperature": df["temperature"], "observed": obs})


def build_baseline(b, raw=None):
    raw = raw_frame(b) if raw is None else raw
    Base, _ = data_classes(b["family"])
    with contextlib.redirect_stdout(io.StringIO()):
        if b["family"] == "billing" and b.get("billing_input", "daily") == "reads":
            return Base(billing_frame(raw), is_electricity_data=b.get("electric", True))
        return Base(raw.copy(), is_electricity_data=b.get("electric", True))


def new_model(b):
    from opendsm import eemeter as em
    from opendsm.eemeter.models.hourly import settings as hs

    with contextlib.redirect_stdout(io.StringIO()):
        fam, prof = b["family"], b["profile"]
        if fam == "daily":
            base, st_ = DAILY_PROFILES[prof]
            return em.DailyModel(model=base, settings=copy.deepcopy(st_))
        if fam == "billing":
            return em.BillingModel(settings=copy.deepcopy(BILLING_PROFILES[prof]))
        if fam == "hourly":
            p = HOURLY_PROFILES[prof]
            if isinstance(p, tuple):
                cls = hs.HourlySolarSettings if p[0] == "solar" else hs.HourlyNonSolarSettings
                return em.HourlyModel(settings=cls(**copy.deepcopy(p[1])))
            return em.HourlyModel(settings=copy.deepcopy(p))
        return em.HourlyCaltrackModel()


_FIT = {}


def fitted(b, ignore_dq=True):
    """(deep copy of the fitted model, fresh baseline data object). Fitting is memoised per process."""
    key = canon(b)
    if key not in _FIT:
        if len(_FIT) > 12:
            _FIT.pop(next(iter(_FIT)))
        data = build_baseline(b)
        m = new_model(b)
        with contextlib.redirect_stdout(io.StringIO()):
            if b["family"] == "caltrack":
                m.fit(data)
            else:
                m.fit(data, ignore_disqualification=ignore_dq)
        _FIT[key] = m
    try:
        return copy.deepcopy(_FIT[key]), build_baseline(b)
    except Exception:
        # a model object that cannot be deep-copied is handed out as its stored form read back
        return model_class(b["family"]).from_json(_FIT[key].to_json()), build_baseline(b)


def fit_fresh(b, ignore_dq=True):
    """(the model object that was fitted - not a copy -, its baseline data object). Never memoised: state shared between
    model objects (class-level containers, caches) stays visible."""
    data = build_baseline(b)
    m = new_model(b)
    with contextlib.redirect_stdout(io.StringIO()):
        if b["family"] == "caltrack":
            m.fit(data)
        else:
            m.fit(data, ignore_disqualification=ignore_dq)
    return m, data


def decoys(family):
    """Construct (not fit) unrelated models with other season / weekday maps: a model must not notice."""
    out = []
    with contextlib.redirect_stdout(io.StringIO()):
        if family in ("daily", "billing"):
            for prof in (("legacy_weekday", "legacy_season", "current") if family == "daily" else ("billing_season", "billing")):
                out.append(new_model({"family": family, "profile": prof}))
            from opendsm import eemeter as em

            out.append(em.DailyModel(settings={"weekday_weekend": dict(gp.WEEKDAY_MAPS["fri_sat"])}) if family == "daily" else
                       em.BillingModel(settings={"weekday_weekend": dict(gp.WEEKDAY_MAPS["fri_sat"])}))
    return out


@st.composite
def reporting(draw, b):
    r = {"start_day": b["start_day"] + 365 + draw(st.integers(0, 400)),
         "n": draw(st.sampled_from([1, 3, 7, 30, 90, 200, 365])) if b["family"] != "billing" else draw(st.sampled_from([35, 60, 90, 200, 365])),
         "noise_seed": draw(st.integers(0, 2 ** 20)), "observed": draw(st.booleans()),
         "T_shift": draw(st.sampled_from([0.0, 0.0, 25.0, -30.0])), "T_scale": draw(st.sampled_from([1.0, 1.0, 1.6]))}
    if b["family"] in ("hourly", "caltrack"):
        r["n"] = draw(st.sampled_from([1, 2, 7, 30, 120, 365]))
    return r


def reporting_frame(b, r):
    bb = dict(b, start_day=r["start_day"], n=r["n"], noise_seed=r["noise_seed"])
    df = raw_frame(bb)
    mean = df["temperature"].mean()
    df["temperature"] = (df["temperature"] - mean) * r.get("T_scale", 1.0) + mean + r.get("T_shift", 0.0)
    if not r.get("observed", True):
        df = df.drop(columns=["observed"])
    return df


def build_reporting(b, r, frame=None):
    df = reporting_frame(b, r) if frame is None else frame
    _, Rep = data_classes(b["family"])
    with contextlib.redirect_stdout(io.StringIO()):
        return Rep(df.copy(), is_electricity_data=b.get("electric", True))


def predict(m, b, data, **kw):
    with contextlib.redirect_stdout(io.StringIO()):
        if b["family"] == "caltrack":
            return m.predict(data)
        return m.predict(data, ignore_disqualification=True, **kw)


def frame_bits_equal(a, b):
    """Bit-exact equality of two prediction frames: index, columns, dtypes, values (NaN positions equal)."""
    if not a.index.equals(b.index):
        return "index differs"
    if list(a.columns) != list(b.columns):
        return "columns differ: %s vs %s" % (list(a.columns), list(b.columns))
    for col in a.columns:
        x, y = a[col], b[col]
        if str(x.dtype) != str(y.dtype):
            return "dtype of %s differs: %s vs %s" % (col, x.dtype, y.dtype)
        if x.dtype.kind == "f":
            if not np.array_equal(np.ascontiguousarray(x.values).view(np.uint64), np.ascontiguousarray(y.values).view(np.uint64)):
                xv, yv = x.values, y.values
                bad = np.nonzero(~((xv == yv) | (np.isnan(xv) & np.isnan(yv))))[0]
                if len(bad):
                    i = int(bad[0])
                    return "column %s differs at %s: %r vs %r (%d rows differ)" % (col, a.index[i], xv[i], yv[i], len(bad))
                return "column %s differs in bit pattern only (e.g. -0.0 / NaN payload)" % col
        else:
            xe = x.astype(object).where(x.notna(), None).tolist()
            ye = y.astype(object).where(y.notna(), None).tolist()
            if xe != ye:
                return "column %s differs" % col
    return None
