"""Hypothesis strategies for daily/billing parameter documents (models built without fitting)."""
import copy
import itertools

import numpy as np
from hypothesis import strategies as st

MODEL_TYPES = ["hdd_tidd_cdd_smooth", "hdd_tidd_cdd", "hdd_tidd_smooth", "hdd_tidd", "tidd_cdd_smooth", "tidd_cdd", "tidd"]
SEASON_PARTS = [["su_sh_wi"], ["su", "sh_wi"], ["su_sh", "wi"], ["su_wi", "sh"], ["su", "sh", "wi"]]


def all_layouts():
    """Every exact cover of the six (day type, season) cells by components day x season-subset."""
    out = set()
    for pw, pe in itertools.product(SEASON_PARTS, SEASON_PARTS):
        common = [g for g in pw if g in pe]
        for k in range(len(common) + 1):
            for merged in itertools.combinations(common, k):
                comps = ["fw-" + g for g in merged]
                comps += ["wd-" + g for g in pw if g not in merged]
                comps += ["we-" + g for g in pe if g not in merged]
                out.add(tuple(sorted(comps)))
    return sorted(out)


LAYOUTS = all_layouts()


def _f(lo, hi):
    return st.floats(lo, hi, allow_nan=False, allow_infinity=False)


@st.composite
def temperature_constraints(draw):
    T_min = draw(_f(-20, 40))
    T_max = T_min + draw(_f(30, 80))
    a = draw(st.one_of(_f(0.5, 5), st.just(0.0)))
    b = draw(st.one_of(_f(0.5, 5), st.just(0.0)))
    return {"T_min": T_min, "T_max": T_max, "T_min_seg": T_min + a, "T_max_seg": T_max - b}


@st.composite
def submodel(draw, mt=None, admissible=True):
    """A sub-model inside the optimiser's box; with admissible=True the balance points lie strictly inside the
    recorded temperature limits and the declared slopes are non-zero (the region C12 describes)."""
    mt = mt or draw(st.sampled_from(MODEL_TYPES))
    tc = draw(temperature_constraints())
    lo, hi = tc["T_min_seg"], tc["T_max_seg"]
    if admissible:
        eps = 1e-3 * (hi - lo)
        lo2, hi2 = max(lo, tc["T_min"] + eps), min(hi, tc["T_max"] - eps)
    else:
        lo2, hi2 = lo, hi
    face = st.sampled_from([lo2, hi2])
    bp = st.one_of(_f(lo2, hi2), _f(lo2, hi2), face)
    a, b = sorted([draw(bp), draw(bp)])
    if draw(st.integers(0, 9)) == 0:
        b = a
    slope = st.one_of(_f(0.01, 5), _f(1e-4, 0.01), _f(5, 200))
    icpt = draw(st.one_of(_f(1, 100), _f(-50, 1), _f(100, 1e5)))
    c = {"model_type": mt, "intercept": icpt, "hdd_bp": None, "hdd_beta": None, "hdd_k": None, "cdd_bp": None,
         "cdd_beta": None, "cdd_k": None}
    pct = st.one_of(_f(0, 1), st.sampled_from([0.0, 0.005, 0.0099, 0.01, 0.0101, 0.5, 1.0]))
    k1 = st.one_of(_f(0, 30), st.sampled_from([0.0, 1e-3, 200.0, 1e3]), _f(30, 1e3))
    if mt.startswith("hdd_tidd_cdd"):
        c.update(hdd_bp=a, hdd_beta=draw(slope), cdd_bp=b, cdd_beta=draw(slope))
        if mt.endswith("smooth"):
            c.update(hdd_k=draw(pct), cdd_k=draw(pct))
    elif mt.startswith("hdd_tidd"):
        c.update(hdd_bp=a, hdd_beta=-draw(slope))
        if mt.endswith("smooth"):
            c.update(hdd_k=draw(k1))
    elif mt.startswith("tidd_cdd"):
        c.update(cdd_bp=b, cdd_beta=draw(slope))
        if mt.endswith("smooth"):
            c.update(cdd_k=draw(k1))
    return {"coefficients": c, "temperature_constraints": tc, "f_unc": draw(_f(0, 50))}


SEASON_MAPS = {
    "default": None,
    "shifted": {"january": "winter", "february": "winter", "march": "winter", "april": "shoulder", "may": "shoulder",
                "june": "shoulder", "july": "summer", "august": "summer", "september": "summer", "october": "summer",
                "november": "shoulder", "december": "winter"},
    "southern": {"january": "summer", "february": "summer", "march": "shoulder", "april": "shoulder", "may": "winter",
                 "june": "winter", "july": "winter", "august": "winter", "september": "shoulder", "october": "shoulder",
                 "november": "summer", "december": "summer"},
    "two_season": {"january": "winter", "february": "winter", "march": "winter", "april": "winter", "may": "summer",
                   "june": "summer", "july": "summer", "august": "summer", "september": "summer", "october": "summer",
                   "november": "winter", "december": "winter"},
}
WEEKDAY_MAPS = {
    "default": None,
    "six_day": {"monday": "weekday", "tuesday": "weekday", "wednesday": "weekday", "thursday": "weekday",
                "friday": "weekday", "saturday": "weekday", "sunday": "weekend"},
    "fri_sat": {"monday": "weekday", "tuesday": "weekday", "wednesday": "weekday", "thursday": "weekday",
                "friday": "weekend", "saturday": "weekend", "sunday": "weekday"},
}

_SETTINGS_CACHE = {}


def base_settings(family):
    """model_dump() of the family's default settings (as to_dict would store them)."""
    if family not in _SETTINGS_CACHE:
        from opendsm import eemeter as em

        if family == "daily":
            s = em.DailyModel().settings.model_dump()
        elif family == "legacy":
            s = em.DailyModel(model="legacy").settings.model_dump()
        else:
            s = em.BillingModel().settings.model_dump()
            s["developer_mode"] = True  # what BillingModel.to_dict records
        _SETTINGS_CACHE[family] = s
    return copy.deepcopy(_SETTINGS_CACHE[family])


def settings_for(family, season="default", weekday="default", alpha=None):
    s = base_settings(family)
    if SEASON_MAPS[season]:
        s["season"].update(SEASON_MAPS[season])
    if WEEKDAY_MAPS[weekday]:
        s["weekday_weekend"].update(WEEKDAY_MAPS[weekday])
    if alpha is not None:
        s["uncertainty_alpha"] = alpha
    return s


def make_doc(family, submodels, season="default", weekday="default", tz="America/Chicago", dq=(), warns=(), alpha=None):
    return {
        "submodels": submodels,
        "info": {"error": {"wRMSE": 1.0, "RMSE": 1.0, "MAE": 1.0, "CVRMSE": 0.1, "PNRMSE": 0.1},
                 "baseline_timezone": tz, "disqualification": list(dq), "warnings": list(warns)},
        "settings": settings_for(family, season, weekday, alpha),
    }


@st.composite
def doc_case(draw, families=("daily", "billing"), admissible=True, single=False):
    """JSON-able description of a parameter-built model."""
    fam = draw(st.sampled_from(list(families)))
    layout = ("fw-su_sh_wi",) if single else draw(st.one_of(st.just(("fw-su_sh_wi",)), st.sampled_from(LAYOUTS)))
    subs = {}
    for name in layout:
        subs[name] = draw(submodel(admissible=admissible))
    return {"family": fam, "submodels": subs, "season": draw(st.sampled_from(sorted(SEASON_MAPS))),
            "weekday": draw(st.sampled_from(sorted(WEEKDAY_MAPS))),
            "tz": draw(st.sampled_from(["America/Chicago", "UTC", "Europe/London", "Australia/Sydney", "Asia/Tokyo"]))}


def build_model(case):
    from opendsm import eemeter as em

    doc = make_doc(case["family"], copy.deepcopy(case["submodels"]), case.get("season", "default"),
                   case.get("weekday", "default"), case.get("tz", "America/Chicago"), case.get("dq", ()),
                   case.get("warns", ()))
    cls = em.BillingModel if case["family"] == "billing" else em.DailyModel
    return cls.from_dict(copy.deepcopy(doc)), doc


def sweep_temperatures(case, step=0.5, extra=()):
    """[-60, 140] sweep + every (recorded and smoothing-shifted) balance point, its float neighbours and +-1e-6."""
    from ..ref.daily_curve import effective

    pts = list(np.arange(-60, 140.0001, step))
    for sm in case["submodels"].values():
        c, tc = sm["coefficients"], sm["temperature_constraints"]
        cand = [c.get("hdd_bp"), c.get("cdd_bp"), tc["T_min"], tc["T_max"], tc["T_min_seg"], tc["T_max_seg"]]
        e = effective(c, tc)
        cand += [e[0], e[3]]
        for v in cand:
            if v is None:
                continue
            v = float(v)
            pts += [v, np.nextafter(v, -np.inf), np.nextafter(v, np.inf), v - 1e-6, v + 1e-6]
    pts += list(extra)
    return np.array(sorted(set(float(p) for p in pts if -80 <= p <= 160)))
