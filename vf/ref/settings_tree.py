"""Walks pydantic settings trees; used to (re)generate and to check the golden table of approved constants."""
import enum
import json
import typing


def _classes():
    from opendsm.eemeter.models.billing.settings import BillingSettings
    from opendsm.eemeter.models.daily.utilities.settings import DailyLegacySettings, DailySettings
    from opendsm.eemeter.models.hourly import settings as hs

    return {
        "DailySettings": DailySettings,
        "DailyLegacySettings": DailyLegacySettings,
        "BillingSettings": BillingSettings,
        "BaseHourlySettings": hs.BaseHourlySettings,
        "HourlySolarSettings": hs.HourlySolarSettings,
        "HourlyNonSolarSettings": hs.HourlyNonSolarSettings,
    }


def jsonify(v):
    if isinstance(v, enum.Enum):
        return v.value
    if isinstance(v, (list, tuple)):
        return [jsonify(x) for x in v]
    if isinstance(v, dict):
        return {str(k): jsonify(x) for k, x in v.items()}
    if isinstance(v, (int, float, str, bool)) or v is None:
        return v
    return repr(v)


def _sub_model(ann):
    import pydantic

    for a in [ann] + list(typing.get_args(ann)):
        if isinstance(a, type) and issubclass(a, pydantic.BaseModel):
            return a
    return None


def _enum_values(ann):
    out = None
    for a in [ann] + list(typing.get_args(ann)):
        if isinstance(a, type) and issubclass(a, enum.Enum):
            out = [m.value for m in a]
        if typing.get_origin(a) is typing.Literal:
            out = (out or []) + list(typing.get_args(a))
    return out


def walk(cls, path=()):
    """Yields dict(path, default, developer, bounds, enum, optional, kind) for every leaf field."""
    import pydantic_core

    for name, f in cls.model_fields.items():
        sub = _sub_model(f.annotation)
        extra = f.json_schema_extra if isinstance(f.json_schema_extra, dict) else {}
        dev = extra.get("developer")
        if sub is not None:
            yield {"path": list(path + (name,)), "node": True, "developer": dev, "optional": type(None) in typing.get_args(f.annotation)}
            yield from walk(sub, path + (name,))
            continue
        if f.default_factory is not None:
            default = f.default_factory()
        else:
            default = None if f.default is pydantic_core.PydanticUndefined else f.default
        bounds = {}
        for m in f.metadata:
            for k in ("ge", "gt", "le", "lt"):
                if hasattr(m, k) and getattr(m, k) is not None:
                    bounds[k] = getattr(m, k)
        ann = f.annotation
        args = [ann] + list(typing.get_args(ann))
        kind = "other"
        if any(a is bool for a in args):
            kind = "bool"
        elif any(a is int for a in args) and not any(a is float for a in args):
            kind = "int"
        elif any(a is float for a in args):
            kind = "float"
        elif any(a is str for a in args):
            kind = "str"
        elif any(typing.get_origin(a) in (list, typing.List) or a is list for a in args):
            kind = "list"
        if _enum_values(ann) and kind in ("other", "str"):
            kind = "enum"
        yield {"path": list(path + (name,)), "node": False, "default": jsonify(default), "developer": dev, "bounds": jsonify(bounds),
               "enum": jsonify(_enum_values(ann)), "optional": type(None) in typing.get_args(ann), "kind": kind,
               "excluded": bool(f.exclude)}


def current_table():
    out = {}
    for name, cls in _classes().items():
        out[name] = list(walk(cls))
    return out


def constructor_defaults():
    """What the model constructors without arguments actually use."""
    from opendsm import eemeter as em
    from opendsm.eemeter.models.hourly_caltrack.wrapper import HourlyModel as CTHourly

    def dump(s):
        d = s.model_dump()
        return jsonify(d)

    ct = CTHourly()
    return {
        "DailyModel()": dump(em.DailyModel().settings),
        "DailyModel(model='legacy')": dump(em.DailyModel(model="legacy").settings),
        "BillingModel()": dump(em.BillingModel().settings),
        "HourlyModel()": dump(em.HourlyModel().settings),
        "caltrack HourlyModel()": {"segment_type": ct.segment_type, "alpha": ct.alpha},
    }


def main():
    import os
    import sys

    here = os.path.dirname(os.path.abspath(__file__))
    doc = {"about": "Golden table of approved method constants and field metadata, transcribed from the settings classes and the "
                    "settings reference of OpenDSM 1.0.0. A difference between this table and the tree under test is a C14 "
                    "violation until a human reviews the change and regenerates the table "
                    "(PYTHONPATH=/repo:/verif /venv/bin/python -m vf.ref.settings_tree).",
           "fields": current_table(), "constructor_defaults": constructor_defaults()}
    with open(os.path.join(here, "approved_settings.json"), "w") as fh:
        json.dump(doc, fh, indent=1, sort_keys=True)
        fh.write("\n")
    print("written", sum(len(v) for v in doc["fields"].values()), "field records")


if __name__ == "__main__":
    main()
