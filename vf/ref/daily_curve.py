"""Reference evaluation of a stored daily/billing model document (written from the documented piecewise
heating/cooling formula and the JSON conventions, not from the kernel)."""
import numpy as np

MONTHS = ["january", "february", "march", "april", "may", "june", "july", "august", "september", "october", "november",
          "december"]
DAYS = ["monday", "tuesday", "wednesday", "thursday", "friday", "saturday", "sunday"]
SEASON_ABBR = {"summer": "su", "shoulder": "sh", "winter": "wi"}
DAY_ABBR = {"weekday": "wd", "weekend": "we"}


def effective(c, tc):
    """(heating bp, heating slope>=0, heating k, cooling bp, cooling slope>=0, cooling k, intercept) after the
    documented conventions: signs, percent-k -> k with shifted balance points, clipping of one-sided models."""
    mt = c["model_type"]
    b = c["intercept"]
    if mt == "tidd":
        return None, 0.0, 0.0, None, 0.0, 0.0, b
    kh = kc = 0.0
    bh = bc = 0.0
    if mt.startswith("hdd_tidd_cdd"):
        hb, cb = c["hdd_bp"], c["cdd_bp"]
        bh, bc = c["hdd_beta"], c["cdd_beta"]
        if mt.endswith("smooth"):
            ph, pc = c["hdd_k"], c["cdd_k"]
            if not (ph < 0.01 and pc < 0.01):
                s = ph + pc
                if s > 1:
                    ph, pc = ph / s, pc / s
                kh = ph * (cb - hb)
                kc = pc * (cb - hb)
                hb = hb + kh
                cb = cb - kc
    elif mt.startswith("hdd_tidd"):
        hb = cb = c["hdd_bp"]
        bh = -c["hdd_beta"]
        kh = c.get("hdd_k") or 0.0
        if not mt.endswith("smooth"):
            hb = cb = min(max(hb, tc["T_min_seg"]), tc["T_max_seg"])
    else:
        hb = cb = c["cdd_bp"]
        bc = c["cdd_beta"]
        kc = c.get("cdd_k") or 0.0
        if not mt.endswith("smooth"):
            hb = cb = min(max(hb, tc["T_min_seg"]), tc["T_max_seg"])
    return hb, bh, kh, cb, bc, kc, b


def curve(c, tc, T):
    """Returns predicted, heating_load, cooling_load."""
    T = np.asarray(T, float)
    hb, bh, kh, cb, bc, kc, b = effective(c, tc)
    heat = np.zeros_like(T)
    cool = np.zeros_like(T)
    if hb is None:
        return np.full_like(T, b), heat, cool
    m = T < hb
    if bh > 0:
        x = hb - T[m]
        v = bh * x
        if kh > 0:
            v = v + bh * kh * (np.exp(-x / kh) - 1)
        heat[m] = v
    m2 = T > cb
    if bc > 0:
        x = T[m2] - cb
        v = bc * x
        if kc > 0:
            v = v + bc * kc * (np.exp(-x / kc) - 1)
        cool[m2] = v
    return b + heat + cool, heat, cool


def cells_of(component):
    """'wd-su_sh' -> {('wd','su'),('wd','sh')}; 'fw-...' covers both day types."""
    d, ss = component[:2], component[3:].split("_")
    days = ("wd", "we") if d == "fw" else (d,)
    return {(dd, s) for dd in days for s in ss}


def cell_of_date(ts, settings):
    """(day type abbr, season abbr) of a local date under the document's own maps."""
    season = settings["season"][MONTHS[ts.month - 1]]
    day = settings["weekday_weekend"][DAYS[ts.dayofweek]]
    return DAY_ABBR[day], SEASON_ABBR[season]


def route(index, submodel_names, settings):
    """For each timestamp the list of submodels whose cells contain its (day type, season) cell."""
    table = {}
    for name in submodel_names:
        for cell in cells_of(name):
            table.setdefault(cell, []).append(name)
    return [table.get(cell_of_date(ts, settings), []) for ts in index]


def is_exact_cover(names):
    seen = []
    for n in names:
        seen.extend(sorted(cells_of(n)))
    full = sorted((d, s) for d in ("wd", "we") for s in ("su", "sh", "wi"))
    return sorted(seen) == full


def evaluate(doc, index, T):
    """Reference prediction of a whole document: dict of arrays predicted/heating_load/cooling_load/model_split."""
    T = np.asarray(T, float)
    names = list(doc["submodels"].keys())
    r = route(index, names, doc["settings"])
    pred = np.full(len(T), np.nan)
    heat = np.full(len(T), np.nan)
    cool = np.full(len(T), np.nan)
    split = [None] * len(T)
    for name in names:
        sm = doc["submodels"][name]
        mask = np.array([name in x for x in r]) & np.isfinite(T)
        if not mask.any():
            continue
        p, h, c = curve(sm["coefficients"], sm["temperature_constraints"], T[mask])
        pred[mask], heat[mask], cool[mask] = p, h, c
        for i in np.nonzero(mask)[0]:
            split[i] = name
    return {"predicted": pred, "heating_load": heat, "cooling_load": cool, "model_split": split}
