"""Hypothesis drivers: collect-then-shrink exploration with pinned root-cause keys."""
import os
import time
import warnings
import zlib

import hypothesis
from hypothesis import HealthCheck, Phase, given, settings
from hypothesis import seed as hseed

from .core import HarnessError, Recorder, Violation, exc_bucket, short


def mix(seed, *parts):
    s = "%d|%s" % (int(seed), "|".join(str(p) for p in parts))
    return zlib.crc32(s.encode()) ^ (int(seed) * 2654435761 & 0xFFFFFFFF)


def _settings(max_examples, shrink):
    phases = [Phase.generate] + ([Phase.shrink] if shrink else [])
    return settings(
        max_examples=max_examples,
        deadline=None,
        database=None,
        derandomize=False,
        report_multiple_bugs=False,
        phases=phases,
        suppress_health_check=list(HealthCheck),
        print_blob=False,
        verbosity=hypothesis.Verbosity.quiet,
    )


def run_judge(judge, case, rec):
    """Run one case; unexpected exceptions with a library frame become violations."""
    rec.begin()
    try:
        with warnings.catch_warnings():
            warnings.simplefilter("ignore")
            judge(case, rec)
    except (Violation, HarnessError, KeyboardInterrupt, SystemExit, MemoryError):
        raise
    except hypothesis.errors.HypothesisException:
        raise
    except Exception as e:  # noqa
        b = exc_bucket(e)
        if b is None:
            raise
        rec.violation("crash/%s" % b, case, "%s: %s" % (type(e).__name__, short(e, 300)))


def explore(strategy, judge, rec, *, max_examples, seed, shrink=True, max_keys=3, wall_s=None,
            shrink_wall_s=None):
    """Phase 1: run `max_examples` generated cases through judge(case, rec) without raising.
    Phase 2: for each new violation key, re-run the same seeded generator raising only for
    that key so Hypothesis shrinks it; the minimal case replaces the first one recorded.
    """
    t0 = time.time()
    # Hypothesis always starts with the simplest example of a strategy (every choice its first alternative, every number zero). With a
    # budget of a handful of cases that one example would be a large share of what is judged - the same share in every run - so small
    # budgets generate one case more and pass over the first.
    skip = 1 if max_examples < 10 else 0
    state = {"stop": False, "seen": 0}

    @hseed(seed)
    @_settings(max_examples + skip, False)
    @given(strategy)
    def collect(case):
        state["seen"] += 1
        if state["seen"] <= skip:
            return
        if state["stop"]:
            return
        if wall_s is not None and time.time() - t0 > wall_s:
            state["stop"] = True
            rec.truncated = True
            return
        run_judge(judge, case, rec)

    collect()

    if not shrink:
        return
    if shrink_wall_s is None:
        shrink_wall_s = 25.0 if os.environ.get("VERIF_TIER", "quick") == "quick" else 150.0
    for key in list(rec.failures)[:max_keys]:
        last = {}
        scratch = Recorder(rec.prop_id, rec.known)
        ts = time.time()

        @hseed(seed)
        @_settings(max(max_examples, 1), True)
        @given(strategy)
        def pinned(case):
            if "case" in last and time.time() - ts > shrink_wall_s:
                return  # budget used up: let the shrinker wind down; the smallest case seen so far is kept
            scratch.failures.clear()
            run_judge(judge, case, scratch)
            if key in scratch.failures:
                last["case"] = scratch.failures[key]["case"]
                last["msg"] = scratch.failures[key]["msg"]
                raise Violation(key, scratch.failures[key]["msg"])

        try:
            pinned()
        except Violation:
            pass
        except hypothesis.errors.Flaky:
            rec.note("flaky_during_shrink")
        except hypothesis.errors.HypothesisException:
            rec.note("shrink_aborted")
        if "case" in last:
            rec.failures[key]["case"] = last["case"]
            rec.failures[key]["msg"] = last["msg"]
            rec.failures[key]["shrunk"] = True
