"""known_findings.json: committed, read-only at run time.

Entries: {"status": "known"|"fixed", "property": "C06", "key": "<violation key or fnmatch pattern>",
          "what": "...", "repro": <case, replayable by the property's replay()> | null,
          "commit": "<repo commit>" (fixed only)}
A `known` entry suppresses exactly the keys its pattern matches; a `fixed` entry suppresses nothing.
"""
import json
import os

from .env import VERIF

PATH = os.path.join(VERIF, "known_findings.json")


def load(prop_id=None):
    if not os.path.exists(PATH):
        return []
    with open(PATH) as fh:
        doc = json.load(fh)
    ents = doc.get("findings", [])
    if prop_id is not None:
        ents = [e for e in ents if e.get("property") == prop_id]
    return ents


def known_patterns(prop_id):
    return [e["key"] for e in load(prop_id) if e.get("status") == "known"]
