"""Entry point behind ./check: tiers, sharding, aggregation, evidence, exit codes."""
import concurrent.futures as cf
import fnmatch
import glob
import importlib
import json
import multiprocessing as mp
import os
import re
import subprocess
import sys
import time
import traceback

from . import env

env.setup()

from . import core, evidence, findings  # noqa: E402

NPROC = int(os.environ.get("VERIF_JOBS", "16"))


def load_prop(pid):
    return importlib.import_module("vf.props.%s" % pid.lower())


# ------------------------------------------------------------------ worker side
def _worker(pid, spec, known):
    env.setup()
    t0 = time.time()
    try:
        prop = load_prop(pid)
        env.quiet()
        env.check_import_origin()
        rec = core.Recorder(pid, known)
        import contextlib
        with open(os.devnull, "w") as dn, contextlib.redirect_stdout(dn):  # the library prints notices
            prop.run_shard(spec, rec)
        d = rec.dump()
        d["wall_s"] = time.time() - t0
        d["spec"] = spec
        return {"ok": True, "dump": d}
    except BaseException as e:  # harness error in this shard
        return {"ok": False, "error": "%s: %s" % (type(e).__name__, e), "tb": traceback.format_exc(), "spec": spec}


def _warm(kinds):
    """Compile the numba kernels once (in a subprocess) before workers are started."""
    st = env.setup()
    todo = [k for k in kinds if not os.path.exists(os.path.join(st["cache"], "warmed-" + k))]
    if not todo:
        return
    t0 = time.time()
    r = subprocess.run([sys.executable, "-m", "vf.warm"] + todo, cwd=env.VERIF, capture_output=True, text=True)
    if r.returncode != 0:
        # not fatal: workers will compile on their own; a failing warm-up is reported, the
        # check itself decides whether the library is broken
        sys.stderr.write("warm-up exited %d: %s\n" % (r.returncode, r.stderr[-2000:]))
    else:
        for k in todo:
            open(os.path.join(st["cache"], "warmed-" + k), "w").close()
    sys.stderr.write("[warm %s %.1fs]\n" % (",".join(todo), time.time() - t0))
    env.prune_caches()


def _replay_case(pid, case):
    prop = load_prop(pid)
    env.quiet()
    rec = core.Recorder(pid, [])
    from .hyp import run_judge

    run_judge(lambda c, r: prop.replay(c, r), case, rec)
    return rec


def _replay_file_worker(pid, path):
    env.setup()
    try:
        with open(path) as fh:
            doc = json.load(fh)
        rec = _replay_case(pid, doc["case"])
        return {"ok": True, "path": path, "failures": rec.failures, "key": doc.get("key")}
    except BaseException as e:
        return {"ok": False, "path": path, "error": "%s: %s" % (type(e).__name__, e), "tb": traceback.format_exc()}


def _safe(s):
    return re.sub(r"[^A-Za-z0-9_.-]+", "_", s)[:80]


def write_replay(pid, key, case, msg, where="found"):
    d = os.path.join(env.VERIF, where, pid)
    os.makedirs(d, exist_ok=True)
    p = os.path.join(d, "%s-%s.json" % (_safe(key), core.fingerprint(case)[:8]))
    with open(p, "w") as fh:
        json.dump({"property": pid, "key": key, "message": msg, "case": case}, fh, indent=1, sort_keys=True,
                  default=core._default)
    return p


def run(pid, tier, seed):
    t0 = time.time()
    prop = load_prop(pid)
    known_entries = findings.load(pid)
    known = [e["key"] for e in known_entries if e.get("status") == "known"]
    _warm(getattr(prop, "WARM", []))

    ctx = mp.get_context("spawn")
    harness_errors = []
    violations = []  # (key, path, msg)
    lines = []

    # 1. replay known findings (repro) and the committed corpus
    corpus = sorted(glob.glob(os.path.join(env.VERIF, "replays", pid, "*.json")))
    jobs = []
    with cf.ProcessPoolExecutor(max_workers=NPROC, mp_context=ctx) as ex:
        kf = []
        for i, e in enumerate(known_entries):
            if e.get("status") != "known":
                continue
            if e.get("repro") is not None:
                tmp = write_replay(pid, "known-" + e["key"], e["repro"], e.get("what", ""), where=".cache/known")
                kf.append((e, ex.submit(_replay_file_worker, pid, tmp)))
            else:
                kf.append((e, None))
        cj = [(p, ex.submit(_replay_file_worker, pid, p)) for p in corpus]
        shard_specs = prop.shards(tier, seed)
        sj = [ex.submit(_worker, pid, spec, known) for spec in shard_specs]

        for e, fut in kf:
            status = ""
            if fut is not None:
                r = fut.result()
                if not r["ok"]:
                    harness_errors.append("known-finding repro %s: %s" % (e["key"], r["error"]))
                    status = " (repro could not be run)"
                elif not any(k == e["key"] or fnmatch.fnmatchcase(k, e["key"]) for k in r["failures"]):
                    status = " (no longer reproduces: turn this entry into 'fixed')"
                    # a different key failing on the repro is judged like any other case
                for k, f in (r.get("failures") or {}).items():
                    if not any(k == p or fnmatch.fnmatchcase(k, p) for p in known):
                        path = write_replay(pid, k, f["case"], f["msg"])
                        violations.append((k, path, f["msg"]))
            lines.append("KNOWN-FINDING: property=%s %s [key=%s]%s" % (pid, e.get("what", ""), e["key"], status))
        replayed = 0
        for p, fut in cj:
            r = fut.result()
            if not r["ok"]:
                harness_errors.append("replay %s: %s\n%s" % (p, r["error"], r.get("tb", "")))
                continue
            replayed += 1
            for k, f in r["failures"].items():
                if any(k == q or fnmatch.fnmatchcase(k, q) for q in known):
                    continue
                violations.append((k, p, f["msg"]))
        dumps = []
        for fut in sj:
            r = fut.result()
            if not r["ok"]:
                harness_errors.append("shard %s: %s\n%s" % (json.dumps(r["spec"]), r["error"], r.get("tb", "")))
            else:
                dumps.append(r["dump"])

    merged = core.merge(dumps) if dumps else None
    seen = {k for k, _, _ in violations}
    if merged:
        for k, f in merged["failures"].items():
            if k in seen:
                continue
            path = write_replay(pid, k, f["case"], f["msg"])
            violations.append((k, path, f["msg"]))

    for ln in lines:
        print(ln)
    wall = time.time() - t0
    ev_ok = False
    if merged and merged["evaluations"] > 0:
        ev = evidence.build(prop, pid, tier, seed, merged, wall, len(violations), replayed, shard_specs, dumps,
                            known_entries)
        ev_ok = evidence.write(pid, ev)
        if not ev_ok:
            harness_errors.append("evidence file does not validate")
        print("%s %s seed=%d: %d cases, %d distinct non-trivial, %d replayed, %d known-excluded, %.1fs%s" % (
            pid, tier, seed, merged["evaluations"], len(merged["nontrivial"]), replayed,
            sum(merged["excluded_known"].values()), wall, " (truncated)" if merged["truncated"] else ""))
        top = sorted(merged["classes"].items(), key=lambda kv: -kv[1])[:40]
        print("  classes: " + ", ".join("%s=%d" % kv for kv in top))
    for k, path, msg in violations:
        print("  violated: %s :: %s" % (k, msg))
        print("VIOLATION property=%s replay=%s" % (pid, path))
    if violations:
        return 1
    if harness_errors:
        seen_h = set()
        for h in harness_errors:
            first = h.strip().splitlines()
            sig = first[-1] if first else h
            if sig in seen_h:
                continue
            seen_h.add(sig)
            sys.stderr.write("HARNESS-ERROR %s\n" % "\n".join(first[:1] + first[-14:]))
        sys.stderr.write("(%d harness errors, %d distinct)\n" % (len(harness_errors), len(seen_h)))
        return 2
    return 0


def replay_cmd(pid, path):
    with open(path) as fh:
        doc = json.load(fh)
    known = findings.known_patterns(pid)
    rec = _replay_case(pid, doc["case"])
    bad = {k: f for k, f in rec.failures.items() if not any(k == p or fnmatch.fnmatchcase(k, p) for p in known)}
    for k, f in rec.failures.items():
        print("  %s: %s :: %s" % ("violated" if k in bad else "known", k, f["msg"]))
    if bad:
        print("VIOLATION property=%s replay=%s" % (pid, path))
        return 1
    print("replay passes: %s" % path)
    return 0


def main(argv):
    if len(argv) >= 1 and argv[0] == "--selftest":
        from . import selftest

        return selftest.main()
    if len(argv) < 2:
        sys.stderr.write("usage: ./check Cxx quick|thorough | ./check Cxx --replay <file> | ./check --selftest\n")
        return 2
    pid = argv[0].upper()
    seed = int(os.environ.get("VERIF_SEED", "1") or "1")
    try:
        if argv[1] == "--replay":
            return replay_cmd(pid, argv[2])
        tier = argv[1]
        if tier not in ("quick", "thorough"):
            sys.stderr.write("unknown tier %s\n" % tier)
            return 2
        os.environ["VERIF_TIER"] = tier
        return run(pid, tier, seed)
    except SystemExit:
        raise
    except BaseException:
        sys.stderr.write("HARNESS-ERROR\n" + traceback.format_exc())
        return 2


if __name__ == "__main__":
    sys.exit(main(sys.argv[1:]))
