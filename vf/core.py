"""Recorder, violation keys, exception bucketing. No third-party imports here."""
import collections
import fnmatch
import hashlib
import json
import os
import sys
import traceback


def canon(obj):
    return json.dumps(obj, sort_keys=True, default=_default, separators=(",", ":"))


def _default(o):
    try:
        import numpy as np

        if isinstance(o, np.generic):
            return o.item()
        if isinstance(o, np.ndarray):
            return o.tolist()
    except Exception:
        pass
    return repr(o)


def jsonable(obj):
    return json.loads(canon(obj))


def fingerprint(obj):
    return hashlib.sha1(canon(obj).encode()).hexdigest()[:16]


class Violation(Exception):
    """Raised only in the pinned (shrinking) phase."""

    def __init__(self, key, msg):
        super().__init__("%s: %s" % (key, msg))
        self.key = key
        self.msg = msg


class HarnessError(Exception):
    pass


def lib_frames(tb, root_marker="opendsm"):
    frames = traceback.extract_tb(tb)
    sep = os.sep + root_marker + os.sep
    return [f for f in frames if sep in f.filename and (os.sep + "vf" + os.sep) not in f.filename]


def exc_bucket(exc):
    """(type name, innermost opendsm frame as file:function) or None when no library frame."""
    fr = lib_frames(exc.__traceback__)
    if not fr:
        return None
    f = fr[-1]
    rel = f.filename.split(os.sep + "opendsm" + os.sep, 1)[1]
    return "%s@%s:%s" % (type(exc).__name__, rel.replace(os.sep, "/"), f.name)


def short(msg, n=400):
    msg = str(msg)
    return msg if len(msg) <= n else msg[: n - 3] + "..."


class Recorder:
    MAX_SAMPLES = 6

    def __init__(self, prop_id, known_patterns=(), pin=None):
        self.prop_id = prop_id
        self.known = list(known_patterns)
        self.pin = pin  # when set: only this key matters (shrinking phase)
        self.evaluations = 0
        self.nontrivial = set()
        self.classes = collections.Counter()
        self.samples = []
        self.sample_fps = set()
        self.excluded_known = collections.Counter()
        self.expected_exc = collections.Counter()
        self.failures = {}  # key -> dict(case, msg, count)
        self.notes = collections.Counter()
        self.truncated = False
        self.case_hits = []  # keys hit by the current case (reset by begin())

    # ---- per case
    def begin(self):
        self.case_hits = []

    def case(self, desc, nontrivial, classes=()):
        self.evaluations += 1
        for c in classes:
            self.classes[c] += 1
        if nontrivial:
            fp = fingerprint(desc)
            self.nontrivial.add(fp)
            if len(self.samples) < self.MAX_SAMPLES and fp not in self.sample_fps:
                # keep a spread: first few nontrivial cases with unseen class sets
                self.samples.append(jsonable(desc))
                self.sample_fps.add(fp)
        elif not self.samples:
            pass

    def is_known(self, key):
        return any(key == p or fnmatch.fnmatchcase(key, p) for p in self.known)

    def violation(self, key, desc, msg):
        if self.is_known(key):
            self.excluded_known[key] += 1
            return False
        self.case_hits.append(key)
        f = self.failures.get(key)
        if f is None:
            self.failures[key] = {"case": jsonable(desc), "msg": short(msg), "count": 1}
        else:
            f["count"] += 1
        return True

    def expected(self, name):
        self.expected_exc[name] += 1

    def note(self, name, n=1):
        self.notes[name] += n

    # ---- transport
    def dump(self):
        return {
            "evaluations": self.evaluations,
            "nontrivial": sorted(self.nontrivial),
            "classes": dict(self.classes),
            "samples": self.samples,
            "excluded_known": dict(self.excluded_known),
            "expected_exc": dict(self.expected_exc),
            "failures": self.failures,
            "notes": dict(self.notes),
            "truncated": self.truncated,
        }


def merge(dumps):
    out = {
        "evaluations": 0,
        "nontrivial": set(),
        "classes": collections.Counter(),
        "samples": [],
        "excluded_known": collections.Counter(),
        "expected_exc": collections.Counter(),
        "failures": {},
        "notes": collections.Counter(),
        "truncated": False,
    }
    for d in dumps:
        out["evaluations"] += d["evaluations"]
        out["nontrivial"].update(d["nontrivial"])
        out["classes"].update(d["classes"])
        out["excluded_known"].update(d["excluded_known"])
        out["expected_exc"].update(d["expected_exc"])
        out["notes"].update(d["notes"])
        out["truncated"] = out["truncated"] or d["truncated"]
        for k, f in d["failures"].items():
            if k not in out["failures"]:
                out["failures"][k] = dict(f)
            else:
                out["failures"][k]["count"] += f["count"]
                # prefer the smaller description
                if len(canon(f["case"])) < len(canon(out["failures"][k]["case"])):
                    out["failures"][k]["case"] = f["case"]
                    out["failures"][k]["msg"] = f["msg"]
    # samples: round-robin over shards
    i = 0
    while len(out["samples"]) < 8:
        took = False
        for d in dumps:
            if i < len(d["samples"]) and len(out["samples"]) < 8:
                out["samples"].append(d["samples"][i])
                took = True
        if not took:
            break
        i += 1
    return out


def guarded(rec, desc, key_prefix, fn, *a, **kw):
    """Call library code that the property says must succeed.

    Returns (ok, value). An exception with a library frame is a violation keyed by its bucket;
    an exception with no library frame is a harness error and propagates.
    """
    try:
        return True, fn(*a, **kw)
    except (KeyboardInterrupt, SystemExit, MemoryError):
        raise
    except Exception as e:  # noqa
        b = exc_bucket(e)
        if b is None:
            raise
        rec.violation("%s/raises/%s" % (key_prefix, b), desc, "%s: %s" % (type(e).__name__, short(e, 300)))
        return False, e
