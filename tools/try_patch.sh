#!/bin/bash
# usage: tools/try_patch.sh <patch.diff | seeded name> <Cxx> [quick|thorough]   - run one check against a scratch copy with one patch applied
# (nothing is recorded; tools/mutants.py is the recording variant)
P=$1; ID=$2; TIER=${3:-quick}
[ -f "$P" ] || P=/verif/seeded/$P/patch.diff
T=$(mktemp -d /tmp/vf-try.XXXXXX)
cp -r /repo/opendsm $T/opendsm
find $T -name __pycache__ -type d -prune -exec rm -rf {} +
( cd $T && git apply --unsafe-paths --directory $T $P ) || ( cd $T && patch -p1 -i $P ) || { echo "patch failed"; rm -rf $T; exit 2; }
cd /verif
VERIF_REPO=$T ./check $ID $TIER 2>&1 | grep "violated:\|VIOLATION\|harness\|^C[0-9][0-9] " | cut -c1-330 | sort | uniq -c | sort -rn | head -${LINES_MAX:-12}
H=$(VERIF_REPO=$T PYTHONPATH=/verif /venv/bin/python -c "from vf.env import tree_hash; print(tree_hash('$T'))")
rm -rf /verif/.cache/numba-$H $T
