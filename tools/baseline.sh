#!/bin/sh
# Re-run the repository's pinned baseline (guard variable unset) and compare with /root/.vp/BASELINE.json
unset OPENDSM_EEMETER_VERIF
OUT=$(mktemp -d /tmp/vf-baseline.XXXXXX)
cd /repo && /venv/bin/python -m pytest -ra -q -p no:cacheprovider --timeout=900 --continue-on-collection-errors --junitxml=$OUT/run.xml > $OUT/run.log 2>&1
tail -1 $OUT/run.log
/venv/bin/python /verif/tools/baseline_cmp.py $OUT/run.xml
rc=$?
rm -rf $OUT
exit $rc
