#!/venv/bin/python
"""Sensitivity harness: apply one named edit to a scratch copy of opendsm/, run a property's check against it,
expect exit 1, delete the copy.   usage: tools/mutants.py [-t quick|thorough] [name ...] | --list | --all | --missing
Mutants live in tools/mutants/<name>.json: {"property": "C18", "file": "opendsm/...", "old": "...", "new": "...",
"why": "..."} or {"property":..., "patch": "path/to/patch.diff"} (git-apply format, e.g. seeded/<id>/patch.diff)."""
import glob
import json
import os
import shutil
import subprocess
import sys
import tempfile
import time

HERE = os.path.dirname(os.path.dirname(os.path.abspath(__file__)))


def load(name):
    p = os.path.join(HERE, "tools", "mutants", name + ".json")
    with open(p) as fh:
        m = json.load(fh)
    m["name"] = name
    return m


def run(m, tier="quick", props=None):
    tmp = tempfile.mkdtemp(prefix="vf-mut-")
    try:
        shutil.copytree("/repo/opendsm", os.path.join(tmp, "opendsm"), ignore=shutil.ignore_patterns("__pycache__"))
        if "patch" in m:
            pth = m["patch"] if os.path.isabs(m["patch"]) else os.path.join(HERE, m["patch"])
            r = subprocess.run(["git", "apply", "--unsafe-paths", "--directory", tmp, pth], cwd=tmp, capture_output=True, text=True)
            if r.returncode != 0:
                r = subprocess.run(["patch", "-p1", "-d", tmp, "-i", pth], capture_output=True, text=True)
                if r.returncode != 0:
                    return [(m["name"], "?", "patch-failed", 0.0, r.stderr[-300:] + r.stdout[-300:])]
        else:
            edits = m.get("edits") or [m]
            for e in edits:
                f = os.path.join(tmp, e["file"])
                s = open(f).read()
                if s.count(e["old"]) != 1:
                    return [(m["name"], "?", "old-text-count=%d" % s.count(e["old"]), 0.0, e["file"])]
                open(f, "w").write(s.replace(e["old"], e["new"]))
        res = []
        for pid in (props or m["property"].split(",")):
            env = dict(os.environ, VERIF_REPO=tmp)
            env.pop("VERIF_TREE_HASH", None)
            t0 = time.time()
            r = subprocess.run([os.path.join(HERE, "check"), pid, tier], cwd=HERE, env=env, capture_output=True, text=True)
            viol = [l for l in r.stdout.splitlines() if l.startswith("  violated:")]
            res.append((m["name"], pid, {0: "SURVIVED", 1: "caught", 2: "harness-error"}.get(r.returncode, str(r.returncode)),
                        time.time() - t0, "; ".join(v[12:100] for v in viol[:3]) or r.stderr[-200:]))
        return res
    finally:
        # drop the numba cache that belongs to the mutant tree, then the tree itself
        try:
            sys.path.insert(0, HERE)
            from vf.env import tree_hash

            shutil.rmtree(os.path.join(HERE, ".cache", "numba-" + tree_hash(tmp)), ignore_errors=True)
        except Exception:
            pass
        shutil.rmtree(tmp, ignore_errors=True)


def main(argv):
    tier = "quick"
    props = None
    if argv and argv[0] == "-t":
        tier = argv[1]
        argv = argv[2:]
    if argv and argv[0] == "-p":
        props = argv[1].split(",")
        argv = argv[2:]
    names = sorted(os.path.basename(p)[:-5] for p in glob.glob(os.path.join(HERE, "tools", "mutants", "*.json")))
    if argv and argv[0] == "--list":
        for n in names:
            m = load(n)
            print(n, m["property"], m.get("why", ""))
        return 0
    if argv and argv[0] == "--merge":
        main_file = os.path.join(HERE, "tools", "sensitivity_results.json")
        results = json.load(open(main_file))
        for f in argv[1:]:
            results.update(json.load(open(f)))
        json.dump(results, open(main_file, "w"), indent=1, sort_keys=True)
        write_report(results)
        print("merged %d files, %d results" % (len(argv) - 1, len(results)))
        return 0
    if argv and argv[0] == "--missing":
        # only the changes without a stored 'caught' result for this tier
        try:
            with open(os.path.join(HERE, "tools", "sensitivity_results.json")) as fh:
                have = json.load(fh)
        except Exception:
            have = {}
        done = {v["mutant"] for v in have.values() if v.get("tier") == tier and v.get("status") == "caught"}
        names = [n for n in names if n not in done]
        print("running %d changes without a stored caught result" % len(names))
    elif not argv or argv[0] != "--all":
        names = argv
    bad = 0
    # SENS_RESULTS=<file>: record into another file (several runs side by side; merge with tools/mutants.py --merge <file> ...)
    resfile = os.environ.get("SENS_RESULTS") or os.path.join(HERE, "tools", "sensitivity_results.json")
    try:
        results = json.load(open(resfile))
    except Exception:
        results = {}
    head = subprocess.run(["git", "-C", "/repo", "rev-parse", "--short", "HEAD"], capture_output=True, text=True).stdout.strip()
    for n in names:
        m = load(n)
        for name, pid, status, wall, info in run(m, tier, props):
            print("%-40s %-4s %-14s %6.1fs  %s" % (name, pid, status, wall, info))
            sys.stdout.flush()
            bad += status != "caught"
            results["%s|%s|%s" % (name, pid, tier)] = {"mutant": name, "property": pid, "tier": tier, "status": status, "wall_s": round(wall, 1),
                                                       "caught_by": info if status == "caught" else "", "why": m.get("why", ""), "repo_head": head,
                                                       "kind": "seeded (sub-agent)" if name.startswith("seeded_") else "hand-written"}
            json.dump(results, open(resfile, "w"), indent=1, sort_keys=True)
    if not os.environ.get("SENS_RESULTS"):
        write_report(results)
    return 1 if bad else 0


def write_report(results):
    rows = sorted(results.values(), key=lambda r: (r["property"], r["mutant"], r["tier"]))
    with open(os.path.join(HERE, "tools", "SENSITIVITY.md"), "w") as fh:
        fh.write("# Sensitivity of the checks\n\nEach row: one realistic edit applied to a scratch copy of `opendsm/` (never to /repo), the property's check run "
                 "against it (`VERIF_REPO`), expected exit 1. `seeded_*` rows are changes written by independent sub-agents (see `/verif/seeded/`); the "
                 "others are hand-written. Regenerate with `tools/mutants.py --all`.\n\n")
        fh.write("| property | change | kind | tier | result | caught by (first keys) | what the change does |\n|---|---|---|---|---|---|---|\n")
        for r in rows:
            fh.write("| %s | %s | %s | %s | %s | %s | %s |\n" % (r["property"], r["mutant"], r["kind"], r["tier"], r["status"],
                                                              r["caught_by"].replace("|", "/")[:160], r["why"].replace("|", "/")[:140]))
        n = len(rows)
        c = sum(r["status"] == "caught" for r in rows)
        fh.write("\n%d of %d runs caught.\n" % (c, n))


if __name__ == "__main__":
    sys.exit(main(sys.argv[1:]))
