#!/venv/bin/python
"""Writes one prompt per property for an independent sub-agent that seeds a property-breaking change.
usage: tools/make_seed_prompts.py <round tag> [Cxx ...]
Creates /tmp/wt/<tag>/prompts/Cxx.md, a scratch worktree /tmp/wt/<tag>/Cxx of /repo HEAD and an output
directory /tmp/wt/<tag>/out/Cxx.  The prompt contains the property text only (nothing from /verif's checks)
plus the *sites* earlier seeded changes already used, so that a new round goes elsewhere."""
import glob
import json
import os
import subprocess
import sys

HERE = os.path.dirname(os.path.dirname(os.path.abspath(__file__)))

TEMPLATE = """You are helping to evaluate a verification effort for the Python library in a scratch git worktree at
{wt} (a checkout of OpenDSM / openeemeter "eemeter": pandas/scikit-learn models - daily, billing, hourly,
CalTRACK hourly - that fit baseline energy use and predict counterfactual usage). Work ONLY inside {wt}
and {out}. Never touch /repo or /verif, never read /verif.

The library is supposed to satisfy this semantic property:

  id: {id}
  title: {title}
  statement: {statement}
  quantifier: {quant}
  why the existing unit tests cannot settle it: {why}
  code anchors: {anchors}

YOUR TASK: write {n} DIFFERENT, independent changes to the library code (under {wt}/opendsm) that each BREAK this
property, while the package still imports and the existing test suite still passes exactly as before. Each change
must look like something a real maintainer could plausibly commit (a refactor, an optimisation, a "simplification",
a caching layer, an off-by-one at an edge, a changed default, a too-clever fast path) - not sabotage with an obvious
marker. Prefer changes that need something SPECIFIC to manifest: an unusual but legal input, a particular
configuration/profile, a multi-step sequence of calls on the same objects, a particular calendar situation (DST day,
leap day, month edge, timezone), or two cooperating sites that each look fine alone. Do NOT write a change that
ordinary use would expose at once (e.g. every prediction wrong), and do not break unrelated behaviour.
{avoid}{extra}
For EACH change k = 1..{n} produce, in {out}/change<k>/ :
  - patch.diff   : `git diff` of the change against the worktree HEAD (must apply with `git apply` to a clean checkout;
                   only files under opendsm/; restore the worktree with `git checkout -- .` before starting the next change)
  - demo.py      : a small standalone program (no pytest needed) that exits 0 on the UNCHANGED code and exits non-zero
                   (assert / sys.exit(1)) WITH the change, demonstrating the property violation through the public API.
                   It must be deterministic, run in under ~3 minutes, and import the library from the current directory
                   (it will be run as: cd <checkout> && PYTHONPATH=<checkout> /venv/bin/python demo.py).
  - meta.json    : {{"property": "{id}", "summary": "...what the change does and how it breaks the property...",
                   "site": "file:function", "needs_to_manifest": "...the specific input/sequence/configuration needed...",
                   "why_tests_pass": "..."}}

Practical facts:
  - Interpreter: /venv/bin/python (pandas 3, numpy 2.5, scikit-learn 1.9). Run things as
      cd {wt} && PYTHONPATH={wt} NUMBA_CACHE_DIR={wt}/.numba PYTHONHASHSEED=0 /venv/bin/python ...
    (PYTHONPATH makes your worktree win over the installed copy; a private NUMBA_CACHE_DIR avoids stale jitted
    code - delete {wt}/.numba after editing any file that contains @numba.jit functions).
  - Test suite (takes ~2-4 min): cd {wt} && PYTHONPATH={wt} NUMBA_CACHE_DIR={wt}/.numba /venv/bin/python -m pytest -q -p no:cacheprovider
      --timeout=900 --continue-on-collection-errors --junitxml={out}/after.xml > {out}/suite.txt 2>&1
    About 112 of 320 tests already fail in this pinned environment (warnings are errors); what matters is that the SAME
    tests pass before and after: run the suite once on the clean worktree first (save as {out}/before.xml), then
    compare the sets of passing test ids after each change. A change that makes a passing test fail is not acceptable.
  - The data files data/hourly_data_2.parquet are emptied; build synthetic data in demo.py (pandas date_range with a
    timezone, a temperature series, usage from a simple formula plus deterministic noise), or use
    opendsm.eemeter.samples.load_sample if convenient.
  - Typical costs: DailyModel().fit on a year ~2 s; HourlyModel fit ~1 s; CalTRACK hourly fit ~8 s.
  - There is no network. Do not install anything.

Verify yourself before finishing, for each change: demo.py exits 0 on the clean worktree, non-zero with the patch applied,
and the test-suite pass set is unchanged. Leave the worktree clean (git checkout -- .) at the end.
Finish with a short report: for each change one paragraph (site, what it needs to manifest, what you ran).
"""


def used_sites(pid):
    out = []
    for p in sorted(glob.glob(os.path.join(HERE, "seeded", pid + "-*", "meta.json"))):
        try:
            m = json.load(open(p))
        except Exception:
            continue
        s = m.get("site")
        if s:
            out.append(str(s)[:160])
    return out


def main(argv):
    tag = argv[0]
    want = set(argv[1:])
    n = int(os.environ.get("SEED_N", "2"))
    base = os.path.join("/tmp/wt", tag)
    os.makedirs(os.path.join(base, "prompts"), exist_ok=True)
    for line in open(os.path.join(HERE, "properties.jsonl")):
        p = json.loads(line)
        pid = p["id"]
        if want and pid not in want:
            continue
        wt = os.path.join(base, pid)
        out = os.path.join(base, "out", pid)
        os.makedirs(out, exist_ok=True)
        if not os.path.isdir(wt):
            subprocess.run(["git", "-C", "/repo", "worktree", "add", "-q", "--detach", wt, "HEAD"], check=True)
        sites = used_sites(pid)
        avoid = ""
        if sites:
            avoid = ("\nEarlier rounds already used these sites for this property - choose OTHER sites and other mechanisms "
                     "(a different function, a different family of model, a different stage of the pipeline):\n"
                     + "".join("  - %s\n" % s for s in sites))
        a = p.get("anchors", {})
        anchors = "files: " + ", ".join(a.get("files", [])) + "; mechanisms: " + "; ".join(
            "%s (%s)" % (m.get("name"), m.get("where")) for m in a.get("mechanism", []))
        extra = os.environ.get("SEED_EXTRA", "")
        if extra:
            extra = "\n" + extra + "\n"
        txt = TEMPLATE.format(extra=extra, wt=wt, out=out, id=pid, title=p["title"], statement=p["statement"],
                              quant=p["quantifier"]["text"], why=p["why_tests_cant"], anchors=anchors, n=n, avoid=avoid)
        open(os.path.join(base, "prompts", pid + ".md"), "w").write(txt)
        print(pid, wt, len(txt))


if __name__ == "__main__":
    main(sys.argv[1:])
