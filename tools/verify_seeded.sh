#!/bin/bash
# usage: tools/verify_seeded.sh <agent change dir> <name under /verif/seeded>
# Confirms independently: demo passes on a clean worktree, fails with the patch, suite loses no passing test.
set -u
SRC=$1; NAME=$2
WT=$(mktemp -d /tmp/vf-seed.XXXXXX)
rmdir $WT
git -C /repo worktree add -q --detach $WT HEAD || exit 2
export PYTHONPATH=$WT NUMBA_CACHE_DIR=$WT/.numba PYTHONHASHSEED=0
cd $WT
( cd $WT && timeout 900 /venv/bin/python $SRC/demo.py > $WT/demo_clean.txt 2>&1 ); rc_clean=$?
git -C $WT apply $SRC/patch.diff; rc_apply=$?
rm -rf $WT/.numba
( cd $WT && timeout 900 /venv/bin/python $SRC/demo.py > $WT/demo_patched.txt 2>&1 ); rc_patched=$?
/venv/bin/python -m pytest -q -p no:cacheprovider --timeout=900 --continue-on-collection-errors --junitxml=$WT/after.xml > $WT/suite.txt 2>&1
/venv/bin/python /verif/tools/baseline_cmp.py $WT/after.xml > $WT/suite_cmp.txt 2>&1
lost=$(grep -c "baseline missing \[\]" $WT/suite_cmp.txt)
echo "apply=$rc_apply demo_clean_rc=$rc_clean demo_patched_rc=$rc_patched baseline_ok=$lost"
tail -2 $WT/demo_clean.txt; tail -2 $WT/demo_patched.txt; cat $WT/suite_cmp.txt
if [ $rc_apply -eq 0 ] && [ $rc_clean -eq 0 ] && [ $rc_patched -ne 0 ] && [ "$lost" = "1" ]; then
  D=/verif/seeded/$NAME; mkdir -p $D
  cp $SRC/patch.diff $SRC/demo.py $D/
  /venv/bin/python - "$SRC/meta.json" "$D/meta.json" "$(tail -c 400 $WT/demo_clean.txt)" "$(tail -c 400 $WT/demo_patched.txt)" "$(cat $WT/suite_cmp.txt)" "$(git -C /repo rev-parse --short HEAD)" <<'PY'
import json,sys
try: m=json.load(open(sys.argv[1]))
except Exception as e: m={"agent_meta_unreadable":str(e)}
out={"property":m.get("property"),"summary":m.get("summary"),"site":m.get("site"),"needs_to_manifest":m.get("needs_to_manifest"),
 "why_tests_pass":m.get("why_tests_pass"),
 "confirmed_by_me":{"repo_head":sys.argv[6],"what_i_ran":"tools/verify_seeded.sh: fresh worktree of /repo HEAD; demo.py on clean tree (exit 0), git apply patch.diff, demo.py (exit !=0), full pytest suite compared with BASELINE.json stable_pass (none missing); worktree removed",
   "demo_clean_tail":sys.argv[3],"demo_patched_tail":sys.argv[4],"suite":sys.argv[5]},
 "detected_by":"(filled in after running the checks)"}
json.dump(out,open(sys.argv[2],"w"),indent=1)
PY
  echo "KEPT as $D"
else
  echo "REJECTED"
fi
cd /; git -C /repo worktree remove --force $WT; rm -rf $WT
