#!/venv/bin/python
"""Copies the outcome of the sensitivity runs into seeded/<name>/meta.json (detected_by)."""
import json, os, glob
HERE = os.path.dirname(os.path.dirname(os.path.abspath(__file__)))
res = json.load(open(os.path.join(HERE, "tools", "sensitivity_results.json")))
for d in sorted(glob.glob(os.path.join(HERE, "seeded", "*"))):
    name = os.path.basename(d)
    mp = os.path.join(d, "meta.json")
    if not os.path.exists(mp):
        continue
    m = json.load(open(mp))
    rows = [r for k, r in res.items() if r["mutant"] == "seeded_" + name]
    if rows:
        m["detected_by"] = [{"check": "./check %s %s" % (r["property"], r["tier"]), "result": r["status"], "keys": r["caught_by"], "repo_head": r["repo_head"]} for r in rows]
    json.dump(m, open(mp, "w"), indent=1)
    print(name, [r["status"] for r in rows])
