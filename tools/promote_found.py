#!/venv/bin/python
"""Promotes cases that caught a seeded change (found/<id>/*.json, written by runs against patched scratch trees) to the committed
regression corpus replays/<id>/: one case per violation key, only if it PASSES on the unchanged tree (./check Cxx --replay).
Every later run of the check replays them first, so the same kind of breakage is caught whatever the seed.
usage: tools/promote_found.py [Cxx ...]"""
import glob
import hashlib
import json
import os
import subprocess
import sys
from concurrent.futures import ThreadPoolExecutor

HERE = os.path.dirname(os.path.dirname(os.path.abspath(__file__)))
LIMIT = {"C03": 2, "C15": 4, "C02": 4, "C01": 6, "C12": 6, "C13": 8, "C05": 8, "C04": 8, "C06": 10}


def passes(pid, path):
    r = subprocess.run([os.path.join(HERE, "check"), pid, "--replay", path], cwd=HERE, capture_output=True, text=True)
    return r.returncode == 0 and "replay passes" in r.stdout


def main(argv):
    want = set(argv)
    jobs = []
    for d in sorted(glob.glob(os.path.join(HERE, "found", "C*"))):
        pid = os.path.basename(d)
        if want and pid not in want:
            continue
        seen, picked = set(), []
        files = sorted(glob.glob(os.path.join(d, "*.json")), key=os.path.getmtime, reverse=True)
        for f in files:
            try:
                doc = json.load(open(f))
            except Exception:
                continue
            key = doc.get("key", "")
            if key.startswith("crash/") or key in seen:
                continue
            seen.add(key)
            picked.append((f, doc))
            if len(picked) >= LIMIT.get(pid, 12):
                break
        jobs += [(pid, f, doc) for f, doc in picked]
    with ThreadPoolExecutor(max_workers=6) as ex:
        res = list(ex.map(lambda j: passes(j[0], j[1]), jobs))
    n = 0
    for (pid, f, doc), ok in zip(jobs, res):
        if not ok:
            print("skip (does not pass on the unchanged tree / stale format):", os.path.relpath(f, HERE))
            continue
        h = hashlib.sha1(json.dumps(doc["case"], sort_keys=True).encode()).hexdigest()[:8]
        out = os.path.join(HERE, "replays", pid, "seeded-%s-%s.json" % ("".join(ch if ch.isalnum() else "_" for ch in doc.get("key", ""))[:60], h))
        os.makedirs(os.path.dirname(out), exist_ok=True)
        json.dump({"property": pid, "key": doc.get("key"), "case": doc["case"],
                   "message": "regression case: it exposed a seeded change (key above) and passes on the unchanged tree"}, open(out, "w"), indent=1, sort_keys=True)
        n += 1
    print("promoted %d of %d" % (n, len(jobs)))


if __name__ == "__main__":
    main(sys.argv[1:])
