#!/venv/bin/python
"""Regenerates /verif/MANIFEST.json from the table below (kept here so the file is always valid)."""
import json
import os

HERE = os.path.dirname(os.path.dirname(os.path.abspath(__file__)))

# id -> (technique, level text, level note, design ref)
CHECKS = {
    "C20": (
        "Hypothesis-generated series/cut/option cases against a reference slice model; collect-then-shrink",
        "Generated-input search: 24k (quick) / 320k (thorough) window requests over hourly, daily and irregular billing "
        "series judged against an independent restatement of the documented slicing rules (exact selection, limits, "
        "bit-equal values, final row blank, input untouched, gap warnings, dedicated error). Finds violations, cannot "
        "prove absence.",
        "Trusted: the reference slice model in vf/props/c20.py; pandas index arithmetic. Assumes sorted unique tz-aware index.",
        "DESIGN.md section 6, C20",
    ),
}

CHECKS["C18"] = (
    "exhaustive calendar enumeration + Hypothesis-generated bins/spans/models against reference tables and a numpy differential",
    "Exhaustive over every hour of a leap and a non-leap year x 8 zones x 4 segment types for the weight tables and hour-of-week; "
    "generated-input search for bin features (all 64 endpoint subsets), prediction routing (random segment models vs an independent "
    "own-month evaluation; the same instants asked for on three clocks), the feature processors, the fitting path (design-matrix weights, weighted least "
    "squares differential) and the public wrapper fitted on a whole leap year (every baseline hour's weight).",
    "Trusted: reference weight table, reference bin formula and numpy lstsq in vf/props/c18.py. Exhaustive only for the calendar sub-domain.",
    "DESIGN.md section 6, C18",
)

CHECKS["C11"] = (
    "Hypothesis-generated parameter documents swept over temperature; validity predicates + reference formula",
    "Generated-input search over coefficient vectors in the optimiser's box (7 shapes, faces and corner values constructed) with "
    "each model loaded by from_dict and evaluated through predict() on a dense temperature sweep that contains every balance "
    "point and its float neighbours; Lipschitz continuity, flat segment, monotonicity, line/asymptote, load sign/exclusivity/"
    "additivity predicates and agreement with an independent formula. 4k documents quick / 64k thorough.",
    "Trusted: vf/ref/daily_curve.py (documented piecewise formula) and the tolerances stated in DESIGN.md section 4.",
    "DESIGN.md section 6, C11",
)

CHECKS["C13"] = (
    "exhaustive enumeration of split configurations and layouts + Hypothesis-generated fits; exact-cover/routing/selection oracles",
    "Exhaustive over 16 flag combinations x gaussian on/off x 4 season maps x 3 weekday maps x 4 data shapes for the candidate "
    "generator (exact cover, unsplit present, nothing forbidden or unsupported) and over all 48 exact-cover layouts for routing "
    "(every date of a leap and a non-leap year, parameter-built models); generated fits (legacy, billing, current, developer "
    "criteria; exact timer loads; one-month seasons; re-used objects) for the selection clause with an independent recomputation of the criterion; "
    "candidate sets of five sites computed in a history in one process and compared with a fresh interpreter (subprocess) per site.",
    "Trusted: vf/ref/daily_curve.py routing table, restated BIC; candidate generator reached through private methods for the cross product.",
    "DESIGN.md section 6, C13",
)
CHECKS["C19"] = (
    "Hypothesis-generated billing models and reporting data; independent aggregation of the daily frame as reference",
    "Generated-input search: parameter-built billing models x reporting data (daily input or billing reads, partial months, "
    "gaps, with/without usage, 7 zones) x aggregation arguments; the aggregated frame is compared with an independent fsum-based "
    "aggregation of the daily frame (period stamps, sums, mean, root-sum-square, span totals) and invalid arguments must be rejected.",
    "Trusted: ref_aggregate in vf/props/c19.py; the daily frame itself is judged by C01/C07.",
    "DESIGN.md section 6, C19",
)
CHECKS["C07"] = (
    "Hypothesis-generated missing-data patterns on parameter-built daily/billing models; row-wise masking predicate",
    "Generated-input search over reporting frames with arbitrary patterns of missing / non-finite temperature and missing usage "
    "(daily input, billing reads), daily and billing models, all billing aggregations: predicted and observed must be finite on "
    "exactly the same rows, never on a temperature-less day, and column sums must equal row-wise savings.",
    "Trusted: numpy isfinite bookkeeping in vf/props/c07.py.",
    "DESIGN.md section 6, C07",
)

CHECKS["C14"] = (
    "exhaustive enumeration of every settings field x alternative values x spellings x forms x companions; golden table of approved constants",
    "Exhaustive walk of all six settings trees: field metadata and constructor defaults against a committed golden table, every "
    "developer field locked without developer_mode and accepted/recorded with it under 3 key spellings, dict/object input, 6 "
    "companion inputs and 2 routes, invalid values and cross-field contradictions rejected, stored settings equal to the built ones.",
    "Trusted: vf/ref/approved_settings.json (human-reviewed transcription) and the alternative-value tables in vf/props/c14.py.",
    "DESIGN.md section 6, C14",
)

CHECKS["C16"] = (
    "Hypothesis-generated observed/predicted arrays and fitted models against textbook numpy formulas; threshold-straddling gate cases",
    "Generated-input search: BaselineMetrics and ReportingMetrics on generated series (NaN/inf rows, zero/negative/tiny means, "
    "constant series, any parameter count) against independent numpy formulas; fitted hourly models whose thresholds are placed "
    "just above/below/on the fitted ratios (stored metrics = metrics of predict(baseline) on measured hours, gate iff both ratios "
    "miss); fitted daily/billing models (error formulas, CVRMSE gate, stored error); CalTRACK ModelMetrics.",
    "Trusted: ref_metrics in vf/props/c16.py, scipy.stats.t; R-squared/PNRMSE/uncertainty definitions as documented by the module.",
    "DESIGN.md section 6, C16",
)

CHECKS["C17"] = (
    "Hypothesis-generated hourly frames (gaps, duplicates, zeros, DST edges) against a cell-by-cell reference of the prepared frame",
    "Generated-input search over on-the-hour frames of 4 days to 2 years in 12 zones, both hourly data classes, electric/gas, "
    "with/without irradiance, NaN cells/blocks, absent rows, duplicates (also with an empty first occurrence), zeros, tiny/negative "
    "readings, spans starting/ending on DST days: expected index by UTC arithmetic, supplied cells bit-identical, interpolated_ flags "
    "exact in both directions, nothing left missing, caller's frame untouched.",
    "Trusted: expected_index and the bookkeeping in vf/props/c17.py; whole-hour DST zones only.",
    "DESIGN.md section 6, C17",
)

CHECKS["C01"] = (
    "Hypothesis-generated fits and parameter documents; round-trip (bit-exact) and reference-formula oracles",
    "Generated-input search over fitted models of all four families under many constructor profiles (stored, reloaded, predicted on "
    "several reporting sets incl. temperatures outside the fitted range: bit-identical frames, idempotent documents, timezone / "
    "warnings / disqualifications kept) and over thousands of parameter documents (7 shapes x 48 split layouts x calendar maps) whose "
    "predictions must equal the documented formula evaluated from the JSON alone. Every constructor profile is fitted in each tier; unrelated "
    "models with other calendar maps are constructed before predicting.",
    "Trusted: vf/ref/daily_curve.py; documents compared as parsed JSON (key order and 12 vs 12.0 are not semantic).",
    "DESIGN.md section 6, C01",
)

CHECKS["C04"] = (
    "Hypothesis-generated defective baselines x flag/storage/argument combinations against a decision-table oracle",
    "Generated-input search over baselines carrying combinations of sufficiency defects (daily legacy/current, billing, hourly) "
    "and int64/float32 column dtypes, crossed with both override flags, storage, reporting argument kinds (own, baseline object, foreign type, "
    "other timezone incl. zones sharing the baseline's offset in one season) and "
    "fitted/unfitted models, five storage routes (one or two JSON round trips, a to_dict() document loaded once, twice, or loaded and then written out) and a history of "
    "up to three predict calls on one model and one data object; every outcome (returned model/frame or exception type) is compared with the fail-closed decision table.",
    "Trusted: the decision table in vf/props/c04.py; the data object's own verdict feeds it (C10 judges the verdict).",
    "DESIGN.md section 6, C04",
)

CHECKS["C05"] = (
    "Hypothesis-generated fitted models and reporting sets; metamorphic relation over alterations of the observed column",
    "Generated-input search: models of all four families fitted on full-year baselines predict paired reporting sets that differ "
    "only in observed usage (scaled, permuted, partly/fully NaN, absent, zero, negated, inf, constant), with identical gaps in the weather "
    "columns and optionally a model that was used before; the predicted value of "
    "every timestamp predicted in both runs must be bit-identical, hourly families must predict every row, and the altered run "
    "must not raise.",
    "Trusted: the alteration and comparison code in vf/props/c05.py.",
    "DESIGN.md section 6, C05",
)

CHECKS["C06"] = (
    "enumeration of all IANA (zone, UTC-offset change) pairs 2000-2037 + Hypothesis-generated spans; UTC-arithmetic row oracle and day-separability relation",
    "Every (zone, transition) pair of pytz 2000-2037 (17k) is driven through the hourly clock-normalisation step with a slot-identifier "
    "vector; HourlyModel.predict is driven through the public API for one pair per (zone, signature) in quick and for all pairs in "
    "thorough (rows = real hours of the local days, finite, neighbouring days equal to the day predicted alone); generated spans for "
    "hourly, daily (also read at 06:00/09:00/13:00) and billing models (any start/end hour, gaps, with/without usage, 18 zones) and for one fitted CalTRACK "
    "hourly model (a day to fourteen months, frame and from_series) check row identity and the finiteness pattern.",
    "Trusted: pytz transition tables, span_index (UTC arithmetic). Known findings: 2- and 3-hour shifts (listed by signature).",
    "DESIGN.md section 6, C06",
)

CHECKS["C08"] = (
    "Hypothesis-generated read calendars and sub-daily series with integer usage; exact interval-arithmetic reference",
    "Generated-input search: pure monthly / bi-monthly read calendars (off-cycle periods, boundary lengths aimed at DST changes, "
    "frame and from_series entry points, 10 zones) and 15/30/60-minute series with NaN and absent blocks around the 50% coverage "
    "threshold, plus as_freq directly and daily identity; every valid period must sum to the billed amount, off-cycle periods and "
    "half-covered days must be missing, partially covered days scaled by 1/coverage, nothing invented elsewhere.",
    "Trusted: the interval arithmetic in vf/props/c08.py; period length = local calendar days; nominal reading interval for sub-daily data.",
    "DESIGN.md section 6, C08",
)

CHECKS["C09"] = (
    "Hypothesis-generated meter calendars and sub-daily temperature feeds with integer readings; per-meter-day reference mean and counts",
    "Generated-input search: daily meters (midnight or another read hour; from_series and merged-frame entry) and billing meters "
    "(merged frame) x hourly / half-hourly feeds in the meter's zone, UTC or another zone x NaN cells and blocks around the 50% "
    "threshold x DST days; each meter day's temperature must be the mean of the present readings of that day, missing at or below "
    "50%, and (hook) the per-day present/absent counts exact. Three defects of the non-hourly path are listed as known findings.",
    "Trusted: the per-day reference in vf/props/c09.py; hook H2 (sufficiency frame) for the counts.",
    "DESIGN.md section 6, C09",
)

CHECKS["C10"] = (
    "Hypothesis-generated baselines/reporting sets with threshold-hugging defect counts; independent restatement of the criteria with accept-either bands",
    "Generated-input search over daily, billing and hourly data classes (baseline and reporting, electric/gas, frame and from_series, "
    "daily and hourly feeds, spans aimed at 328-330 / 364-366 days and at DST changes, missing-day counts at floor(0.1 n) +- 2, one "
    "month with 2/3/4 missing days, negative values, zeros, extreme values, UTC index): the reported disqualification set must contain "
    "every criterion the reference says is violated and nothing the reference excludes; warnings appear exactly when triggered and "
    "never as disqualifications.",
    "Trusted: reference_daily / the hourly reference in vf/props/c10.py; where DST makes a day count fractional both verdicts are accepted.",
    "DESIGN.md section 6, C10",
)

CHECKS["C15"] = (
    "Hypothesis-generated in-family buildings and weather years; accuracy oracle with the property's own 5% thresholds",
    "Generated-input search over the stated family (base load, slopes, balance points, four shapes, weather years in both hemispheres, "
    "8 zones, noise <= 1%), daily meters under the default and legacy profiles and monthly-billed meters: NRMSE of predict() against the "
    "generating curve on the baseline year and on another year, and spurious heating/cooling load, against the 5% limits. Billing "
    "errors of 5-25% are a listed known finding; anything above is reported.",
    "Trusted: the generating curve in vf/gen/synth.py; discarded cases (fewer than 30 days in an active regime) are counted.",
    "DESIGN.md section 6, C15",
)

CHECKS["C12"] = (
    "Hypothesis-generated baselines fitted under three profiles; admissibility predicates on the stored document and a curve-agreement differential keyed by cause",
    "Generated-input search over baselines of every listed regime (incl. awkward weather, outliers, level shifts) under the current, "
    "legacy and billing profiles: every stored sub-model is checked against the admissibility predicates with the segment's days "
    "recomputed from the data, and every fitted component's kept coefficients are re-evaluated against its fitted values; mismatches "
    "are attributed to their cause through hook H1 and two causes are listed as known findings.",
    "Trusted: vf/ref/daily_curve.py routing; hook H1 (raw optimiser vector) for attribution only.",
    "DESIGN.md section 6, C12",
)

CHECKS["C02"] = (
    "Hypothesis rule-based state machines over call histories per family + generated constructor/fit cases; snapshot and fresh-copy differential invariants",
    "Stateful search: sequences of predict (spans from one day to a year, with/without usage, both flags, GHI-carrying data), serialise, "
    "interleaved real fits of other meters with other model objects and calendar maps, construction of unrelated models and writes into "
    "handed-out frames are generated and shrunk as one value (the object under test is the one fit() returned, or a stored model read back; not a copy); after every step the "
    "model's JSON must equal its post-fit snapshot, each prediction must be bit-identical to that of a fresh deep copy of the post-fit "
    "model, and every data object must be unchanged. Generated constructor and fit cases compare the caller's frames/series and the "
    "data object's lists with deep copies taken before the call.",
    "Trusted: frame_state/data_state fingerprints in vf/props/c02.py; hourly models use an explicit seed.",
    "DESIGN.md section 6, C02",
)

CHECKS["C03"] = (
    "Hypothesis-generated process-level schedules (order, pool size, warm-up history, environment) executed in subprocesses; digest equality against fresh-process references",
    "Generated schedules over a batch of meters of every family (incl. seed 0, another optimiser step, supplemental columns): permutations, "
    "1-16 subprocesses, unrelated warm-up actions and repeated fits/predictions inside warm processes, every model serialised again at the end of its process, PYTHONHASHSEED in {0, 1, 12345, random} and BLAS thread variables in {unset, 1, 4}; the "
    "sha-256 of to_json() and of the prediction bytes of every execution must equal the fresh single-process reference. CalTRACK's "
    "thread-count dependence is a listed known finding.",
    "Trusted: sha-256 digests; the harness owns the schedule at process granularity only; one machine / BLAS build.",
    "DESIGN.md section 6, C03",
)

PENDING_REASON = "check not built yet in this session (work in progress; property-based testing applies and is planned, see DESIGN.md section 6)"


def main():
    props = [json.loads(l) for l in open(os.path.join(HERE, "properties.jsonl")) if l.strip()]
    checks = []
    na = []
    for p in props:
        pid = p["id"]
        if pid in CHECKS and os.path.exists(os.path.join(HERE, "vf", "props", pid.lower() + ".py")):
            tech, text, note, ref = CHECKS[pid]
            checks.append({
                "property_id": pid,
                "quick_cmd": "./check %s quick" % pid,
                "thorough_cmd": "./check %s thorough" % pid,
                "evidence_file": "/verif/evidence/%s.json" % pid,
                "replay_cmd_template": "./check %s --replay {path}" % pid,
                "engine": "vf",
                "level_claimed": {"category": "exploration", "text": text, "design_ref": ref},
                "level_note": note,
                "technique": tech,
            })
        else:
            na.append({"property_id": pid, "reason": PENDING_REASON})
    hooks_commits = []
    hc = os.path.join(HERE, "tools", "hook_commits.txt")
    if os.path.exists(hc):
        hooks_commits = [l.split()[0] for l in open(hc) if l.strip() and not l.startswith("#")]
    man = {
        "version": 1,
        "setup_cmd": "/venv/bin/pip install --no-index --find-links /opt/veriftools/wheels hypothesis >/dev/null 2>&1; "
                     "./check --selftest",
        "hooks": {
            "guard": "OPENDSM_EEMETER_VERIF",
            "enable": "checks set OPENDSM_EEMETER_VERIF=1 in their own process environment (vf/env.py) before importing "
                      "opendsm from /repo's working tree; nothing is built",
            "baseline_off_cmd": "cd /repo && env -u OPENDSM_EEMETER_VERIF /venv/bin/python -m pytest -ra -q -p no:cacheprovider "
                                "--timeout=900 --continue-on-collection-errors",
            "source_commits": hooks_commits,
            "add_only": True,
        },
        "engines": [{
            "name": "vf",
            "path": "/verif/vf",
            "serves_properties": [c["property_id"] for c in checks],
            "kind_free_text": "Hypothesis 6.168 property-based testing (generated inputs, rule-based state machines), exhaustive "
                              "enumeration of finite sub-domains, 16-process sharding, collect-then-shrink with root-cause keys, "
                              "JSON replay files, known-findings matcher",
        }],
        "checks": checks,
        "not_applicable": na,
        "notes": "Entry point ./check <id> quick|thorough|--replay <file>. Exit 0 held / 1 VIOLATION / 2 harness error. "
                 "VERIF_SEED selects the seed; VERIF_REPO=<dir> points a check at another tree (sensitivity runs). "
                 "known_findings.json lists genuine defects (known / fixed).",
    }
    with open(os.path.join(HERE, "MANIFEST.json"), "w") as fh:
        json.dump(man, fh, indent=1)
        fh.write("\n")
    print("MANIFEST.json: %d checks, %d not_applicable" % (len(checks), len(na)))


if __name__ == "__main__":
    main()
