import json,sys,xml.etree.ElementTree as ET
b=json.load(open('/root/.vp/BASELINE.json'))
want=set(b['stable_pass'])
t=ET.parse(sys.argv[1]); ok=set(); bad=set()
for tc in t.iter('testcase'):
    name=tc.get('classname')+'::'+tc.get('name')
    if any(c.tag in('failure','error','skipped') for c in tc): bad.add(name)
    else: ok.add(name)
print('passed',len(ok),'failed',len(bad),'baseline missing',sorted(want-ok)[:20], 'newly passing', len(ok-want))

sys.exit(1 if (want-ok) else 0)
