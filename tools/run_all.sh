#!/bin/sh
# usage: tools/run_all.sh [quick|thorough] [seed]   - every check once, one line per check (exit code, summary line)
TIER=${1:-quick}; SEED=${2:-1}
cd "$(dirname "$0")/.." || exit 2
for i in 01 02 03 04 05 06 07 08 09 10 11 12 13 14 15 16 17 18 19 20; do
  VERIF_SEED=$SEED ./check C$i $TIER > /tmp/vf-all-C$i.out 2>&1; rc=$?
  echo "C$i rc=$rc $(grep "^C$i $TIER seed" /tmp/vf-all-C$i.out | cut -c1-160)"
  [ $rc -ne 0 ] && grep "violated\|HARNESS\|VIOLATION" /tmp/vf-all-C$i.out | cut -c1-300 | head -6
done
